import ElkVerif.Model.Utf8
/-
C19 — `inspect` writers and the lexer's readers, over byte lists.

Writers (mirroring the Go code of the elk worktree, i.e. *with* the `fix:` commits of this branch):
  `inspectString`  value/string.go  `String.Inspect`
  `inspectChar`    value/char.go    `Char.Inspect`
  `inspectSymbol`  value/symbol.go  `InspectSymbol` / `InspectSymbolContent`
  `showInt`        value/small_int.go / big_int.go `Inspect` (decimal)
Readers:
  `readString`     lexer/lexer.go `scanStringLiteral` + `scanStringLiteralContent` followed by the
                   parser's `stringLiteral` (a literal without interpolation: one STRING_CONTENT)
  `readChar`       lexer/lexer.go `character` + parser `charLiteral` (first rune of the token value)
  `readSymbol`     parser `symbolLiteral`: `:` + identifier token / `:` + string literal
  `lexInt`         lexer/lexer.go `numberLiteral` + `consumeDigits` (integer part only)
  `parseBigInt`    value/big_int.go `ParseBigIntWithErr` + `parseUBigInt`
The Unicode predicates (`unicode.IsGraphic/IsLetter/IsDigit/IsNumber/IsUpper/IsLower`) are
parameters (`Cls`); the driver instantiates them with range tables probed from the Go runtime.
`*Old` definitions keep the pre-fix behaviour of the unchanged tree for the witness theorems.
Core Lean only.
-/
namespace Elk.Inspect
open Elk.Utf8

/-- Unicode classification functions used by inspect and the lexer (Go `unicode` package). -/
structure Cls where
  graphic : Nat → Bool
  letter : Nat → Bool
  digit : Nat → Bool      -- unicode.IsDigit (Nd)
  number : Nat → Bool     -- unicode.IsNumber (N)
  upper : Nat → Bool
  lower : Nat → Bool

/-! ### hexadecimal -/

/-- `%x` digit -/
def hexDigit (n : Nat) : UInt8 := if n < 10 then byte (0x30 + n) else byte (0x61 + (n - 10))
/-- `%X` digit -/
def hexDigitU (n : Nat) : UInt8 := if n < 10 then byte (0x30 + n) else byte (0x41 + (n - 10))

/-- value of a character of `hexLiteralChars = "0123456789abcdefABCDEF"` -/
def hexVal (b : UInt8) : Option Nat :=
  let x := b.toNat
  if 0x30 ≤ x ∧ x ≤ 0x39 then some (x - 0x30)
  else if 0x61 ≤ x ∧ x ≤ 0x66 then some (x - 0x61 + 10)
  else if 0x41 ≤ x ∧ x ≤ 0x46 then some (x - 0x41 + 10)
  else none

/-- `\x%02x` -/
def hex2 (c : Nat) : Bytes := [hexDigit (c / 16 % 16), hexDigit (c % 16)]
/-- `\u%04x` -/
def hex4 (c : Nat) : Bytes := [hexDigit (c / 4096 % 16), hexDigit (c / 256 % 16), hexDigit (c / 16 % 16), hexDigit (c % 16)]
/-- `\U%08X` -/
def hex8U (c : Nat) : Bytes :=
  [hexDigitU (c / 268435456 % 16), hexDigitU (c / 16777216 % 16), hexDigitU (c / 1048576 % 16), hexDigitU (c / 65536 % 16),
   hexDigitU (c / 4096 % 16), hexDigitU (c / 256 % 16), hexDigitU (c / 16 % 16), hexDigitU (c % 16)]

/-- `acceptCharsN(hexLiteralChars, n)` + `strconv.ParseUint(…, 16, …)` on the next `n` bytes -/
def parseHexN : Nat → Bytes → Nat → Option Nat
  | 0, _, acc => some acc
  | n + 1, b :: rest, acc => match hexVal b with
    | some v => parseHexN n rest (acc * 16 + v)
    | none => none
  | _ + 1, [], _ => none

/-! ### String.Inspect -/

/-- the one-letter escapes of `String.Inspect` (`\\ \n \t \" \r \a \b \v \f \$ \#`) -/
def strEscape (c : Nat) : Option UInt8 :=
  if c = 0x5C then some 0x5C        -- \\
  else if c = 0x0A then some 0x6E   -- \n
  else if c = 0x09 then some 0x74   -- \t
  else if c = 0x22 then some 0x22   -- \"
  else if c = 0x0D then some 0x72   -- \r
  else if c = 0x07 then some 0x61   -- \a
  else if c = 0x08 then some 0x62   -- \b
  else if c = 0x0B then some 0x76   -- \v
  else if c = 0x0C then some 0x66   -- \f
  else if c = 0x24 then some 0x24   -- \$
  else if c = 0x23 then some 0x23   -- \#
  else none

/-- default branch of the `switch char` in `String.Inspect` (fixed code): graphic runes verbatim,
ASCII controls as `\xNN`, other BMP runes as `\uNNNN`, astral as `\UNNNNNNNN`. -/
def escapeRune (g : Nat → Bool) (c : Nat) : Bytes :=
  if g c then encodeRune c
  else if c < 0x80 then [0x5C, 0x78] ++ hex2 c
  else if c < 0x10000 then [0x5C, 0x75] ++ hex4 c
  else [0x5C, 0x55] ++ hex8U c

/-- what `String.Inspect` writes for one decoded piece starting at byte `b0` -/
def inspectPiece (g : Nat → Bool) (b0 : UInt8) (p : Nat × Nat) : Bytes :=
  if p.1 = runeError ∧ p.2 = 1 then [0x5C, 0x78] ++ hex2 b0.toNat   -- invalid byte: always `\xNN`
  else match strEscape p.1 with
    | some e => [0x5C, e]
    | none => escapeRune g p.1

def inspectBody (g : Nat → Bool) (bs : Bytes) : Bytes :=
  match bs with
  | [] => []
  | b :: rest =>
    let p := decodeRune (b :: rest)
    inspectPiece g b p ++ inspectBody g ((b :: rest).drop p.2)
termination_by bs.length
decreasing_by
  have h1 := decodeRune_width_pos (b :: rest) (by simp)
  have h2 := decodeRune_width_le (b :: rest)
  simp only [List.length_drop, List.length_cons] at *
  omega

/-- `String.Inspect` -/
def inspectString (g : Nat → Bool) (bs : Bytes) : Bytes := [0x22] ++ inspectBody g bs ++ [0x22]

/-- the unchanged tree: an invalid byte `b` is treated as the rune `b`, and every non-graphic rune
below 0x100 is written `\xNN` -/
def escapeRuneOld (g : Nat → Bool) (c : Nat) : Bytes :=
  if g c then encodeRune c
  else if c < 0x100 then [0x5C, 0x78] ++ hex2 c
  else if c < 0x10000 then [0x5C, 0x75] ++ hex4 c
  else [0x5C, 0x55] ++ hex8U c

def inspectPieceOld (g : Nat → Bool) (b0 : UInt8) (p : Nat × Nat) : Bytes :=
  let c := if p.1 = runeError ∧ p.2 = 1 then b0.toNat else p.1
  match strEscape c with
  | some e => [0x5C, e]
  | none => escapeRuneOld g c

def inspectBodyOld (g : Nat → Bool) (bs : Bytes) : Bytes :=
  match bs with
  | [] => []
  | b :: rest =>
    let p := decodeRune (b :: rest)
    inspectPieceOld g b p ++ inspectBodyOld g ((b :: rest).drop p.2)
termination_by bs.length
decreasing_by
  have h1 := decodeRune_width_pos (b :: rest) (by simp)
  have h2 := decodeRune_width_le (b :: rest)
  simp only [List.length_drop, List.length_cons] at *
  omega

def inspectStringOld (g : Nat → Bool) (bs : Bytes) : Bytes := [0x22] ++ inspectBodyOld g bs ++ [0x22]

/-! ### the lexer's string reader -/

inductive Step where
  | fail                                  -- lexing error / interpolation / unterminated
  | done (k : Nat)                        -- closing quote, `k` bytes consumed
  | emit (out : Bytes) (k : Nat)          -- `out` appended to the lexeme, `k` bytes consumed
deriving Repr, DecidableEq

/-- the one-letter escapes the lexer accepts inside `"…"` -/
def strUnescape (c : Nat) : Option UInt8 :=
  if c = 0x5C then some 0x5C
  else if c = 0x6E then some 0x0A
  else if c = 0x74 then some 0x09
  else if c = 0x22 then some 0x22
  else if c = 0x72 then some 0x0D
  else if c = 0x61 then some 0x07
  else if c = 0x62 then some 0x08
  else if c = 0x76 then some 0x0B
  else if c = 0x66 then some 0x0C
  else if c = 0x24 then some 0x24
  else if c = 0x23 then some 0x23
  else none

/-- after a backslash: the escape at the head of `src` (which starts *after* the backslash).
Returns the bytes written and the number of source bytes consumed including the backslash.
`term` is the terminator character that may be escaped (`"` in strings, `` ` `` in chars). -/
def readEscape (unesc : Nat → Option UInt8) (src : Bytes) : Step :=
  let p := decodeRune src
  if p.2 = 0 then .fail
  else match unesc p.1 with
    | some b => .emit [b] 2
    | none =>
      if p.1 = 0x75 then          -- \uHHHH : WriteRune(rune(value))
        match parseHexN 4 (src.drop 1) 0 with
        | some v => .emit (encodeRune v) 6
        | none => .fail
      else if p.1 = 0x55 then     -- \UHHHHHHHH : WriteRune(rune(value)); values ≥ 2^31 are negative runes
        match parseHexN 8 (src.drop 1) 0 with
        | some v => .emit (encodeRune v) 10
        | none => .fail
      else if p.1 = 0x78 then     -- \xHH : WriteByte(byte(value))
        match parseHexN 2 (src.drop 1) 0 with
        | some v => .emit [byte v] 4
        | none => .fail
      else .fail

/-- one iteration of `scanStringLiteral` / the loop of `scanStringLiteralContent`.
`letter` is `unicode.IsLetter` (decides whether `$x` / `#x` starts an interpolation). -/
def strStep (letter : Nat → Bool) (src : Bytes) : Step :=
  let p := decodeRune src
  if p.2 = 0 then .fail                       -- unterminated string literal
  else if p.1 = 0x22 then .done 1             -- closing quote
  else
    let next := (decodeRune (src.drop 1)).1   -- peekNextChar: decodes at cursor+1
    if (p.1 = 0x24 ∨ p.1 = 0x23) ∧ (next = 0x7B ∨ next = 0x5F ∨ letter next = true) then .fail  -- interpolation
    else if p.1 ≠ 0x5C then .emit (encodeRune p.1) p.2   -- WriteRune(char): U+FFFD for an invalid byte
    else readEscape strUnescape (src.drop 1)

/-- the lexeme of the string literal whose body (after the opening quote) is `src`; the closing
quote must be the last byte of the source. -/
def readLoop (letter : Nat → Bool) (src acc : Bytes) : Option Bytes :=
  match strStep letter src with
  | .fail => none
  | .done k => if src.drop k = [] then some acc else none
  | .emit out k =>
    if _h : 0 < k ∧ k ≤ src.length ∧ src ≠ [] then readLoop letter (src.drop k) (acc ++ out) else none
termination_by src.length
decreasing_by
  have := _h.2.2
  cases src with
  | nil => simp at this
  | cons a t => simp only [List.length_drop, List.length_cons] at *; omega

/-- lex + parse `"…"` as a plain (non-interpolated) string literal -/
def readString (letter : Nat → Bool) (src : Bytes) : Option Bytes :=
  match src with
  | 0x22 :: body => readLoop letter body []
  | _ => none

/-! ### Char -/

/-- the one-letter escapes of `Char.Inspect` -/
def charEscape (c : Nat) : Option UInt8 :=
  if c = 0x5C then some 0x5C
  else if c = 0x0A then some 0x6E
  else if c = 0x09 then some 0x74
  else if c = 0x60 then some 0x60   -- backtick
  else if c = 0x0D then some 0x72
  else if c = 0x07 then some 0x61
  else if c = 0x08 then some 0x62
  else if c = 0x0B then some 0x76
  else if c = 0x0C then some 0x66
  else none

def charUnescape (c : Nat) : Option UInt8 :=
  if c = 0x5C then some 0x5C
  else if c = 0x6E then some 0x0A
  else if c = 0x74 then some 0x09
  else if c = 0x60 then some 0x60
  else if c = 0x72 then some 0x0D
  else if c = 0x61 then some 0x07
  else if c = 0x62 then some 0x08
  else if c = 0x76 then some 0x0B
  else if c = 0x66 then some 0x0C
  else none

/-- `Char.Inspect` (fixed code) for a non-negative rune -/
def inspectChar (g : Nat → Bool) (c : Nat) : Bytes :=
  [0x60] ++ (match charEscape c with
    | some e => [0x5C, e]
    | none => escapeRune g c) ++ [0x60]

def inspectCharOld (g : Nat → Bool) (c : Nat) : Bytes :=
  [0x60] ++ (match charEscape c with
    | some e => [0x5C, e]
    | none => escapeRuneOld g c) ++ [0x60]

/-- lexer `character()` after the opening backtick, then the parser's
`utf8.DecodeRuneInString(tok.Value)`: the rune of the literal -/
def readChar (src : Bytes) : Option Nat :=
  match src with
  | 0x60 :: body =>
    let p := decodeRune body
    if p.2 = 0 then none
    else
      let st := if p.1 = 0x5C then readEscape charUnescape (body.drop 1) else Step.emit (encodeRune p.1) p.2
      match st with
      | .emit out k =>
        if body.drop k = [0x60] then some (decodeRune out).1 else none
      | _ => none
  | _ => none

/-! ### Symbol -/

/-- escapes of `InspectSymbolContent` that force quotes -/
def symEscape (c : Nat) : Option UInt8 :=
  if c = 0x5C then some 0x5C
  else if c = 0x0A then some 0x6E
  else if c = 0x09 then some 0x74
  else if c = 0x0D then some 0x72
  else if c = 0x07 then some 0x61
  else if c = 0x08 then some 0x62
  else if c = 0x0B then some 0x76
  else if c = 0x0C then some 0x66
  else if c = 0x22 then some 0x22
  else if c = 0x24 then some 0x24   -- fix: `$` and `#` would start an interpolation in `:"…"`
  else if c = 0x23 then some 0x23
  else none

/-- loop state of `InspectSymbolContent`: output so far, `quotes`, `firstLetter` -/
structure SymSt where
  out : Bytes
  quotes : Bool
  first : Bool

/-- one iteration of the loop of `InspectSymbolContent` on the piece `p` starting at byte `b0` -/
def symPiece (U : Cls) (st : SymSt) (b0 : UInt8) (p : Nat × Nat) : SymSt :=
  if p.1 = runeError ∧ p.2 = 1 then
    -- fix: an invalid byte is written `\xNN` (it used to be written as a literal U+FFFD)
    { out := st.out ++ [0x5C, 0x78] ++ hex2 b0.toNat, quotes := true, first := false }
  else match symEscape p.1 with
    | some e => { out := st.out ++ [0x5C, e], quotes := true, first := false }
    | none =>
      if p.1 = 0x5F then { out := st.out ++ [0x5F], quotes := st.quotes, first := false }
      else
        let q := if st.first && U.digit p.1 then true
                 else if !st.quotes && !U.digit p.1 && !U.letter p.1 then true
                 else st.quotes
        let w := if U.graphic p.1 then encodeRune p.1
                 else if p.2 = 1 then [0x5C, 0x78] ++ hex2 p.1
                 else [0x5C, 0x55] ++ hex8U p.1
        { out := st.out ++ w, quotes := q, first := false }

def symLoop (U : Cls) (st : SymSt) (bs : Bytes) : SymSt :=
  match bs with
  | [] => st
  | b :: rest =>
    let p := decodeRune (b :: rest)
    symLoop U (symPiece U st b p) ((b :: rest).drop p.2)
termination_by bs.length
decreasing_by
  have h1 := decodeRune_width_pos (b :: rest) (by simp)
  have h2 := decodeRune_width_le (b :: rest)
  simp only [List.length_drop, List.length_cons] at *
  omega

/-- fix: names the lexer cannot read back as one identifier token are quoted from the start:
the empty name, and `_` followed by something that is neither an upper- nor a lower-case letter
(`privateIdentifier` then stops after the underscore). -/
def symInitQuotes (U : Cls) (name : Bytes) : Bool :=
  match name with
  | [] => true
  | b :: rest =>
    if b = 0x5F then
      match rest with
      | [] => false
      | _ => let c := (decodeRune rest).1; !(U.upper c) && !(U.lower c)
    else false

/-- `InspectSymbolContent` -/
def inspectSymbolContent (U : Cls) (name : Bytes) : Bytes :=
  let st := symLoop U { out := [], quotes := symInitQuotes U name, first := true } name
  if st.quotes then [0x22] ++ st.out ++ [0x22] else st.out

/-- `InspectSymbol` -/
def inspectSymbol (U : Cls) (name : Bytes) : Bytes := [0x3A] ++ inspectSymbolContent U name

/-- unchanged tree: no `$`/`#` escapes, invalid bytes decoded as U+FFFD (written verbatim, it is
graphic), no initial quoting -/
def symEscapeOld (c : Nat) : Option UInt8 :=
  if c = 0x24 ∨ c = 0x23 then none else symEscape c

def symPieceOld (U : Cls) (st : SymSt) (p : Nat × Nat) : SymSt :=
  match symEscapeOld p.1 with
    | some e => { out := st.out ++ [0x5C, e], quotes := true, first := false }
    | none =>
      if p.1 = 0x5F then { out := st.out ++ [0x5F], quotes := st.quotes, first := false }
      else
        let q := if st.first && U.digit p.1 then true
                 else if !st.quotes && !U.digit p.1 && !U.letter p.1 then true
                 else st.quotes
        let w := if U.graphic p.1 then encodeRune p.1
                 else if p.2 = 1 then [0x5C, 0x78] ++ hex2 p.1
                 else [0x5C, 0x55] ++ hex8U p.1
        { out := st.out ++ w, quotes := q, first := false }

def symLoopOld (U : Cls) (st : SymSt) (bs : Bytes) : SymSt :=
  match bs with
  | [] => st
  | b :: rest =>
    let p := decodeRune (b :: rest)
    symLoopOld U (symPieceOld U st p) ((b :: rest).drop p.2)
termination_by bs.length
decreasing_by
  have h1 := decodeRune_width_pos (b :: rest) (by simp)
  have h2 := decodeRune_width_le (b :: rest)
  simp only [List.length_drop, List.length_cons] at *
  omega

def inspectSymbolOld (U : Cls) (name : Bytes) : Bytes :=
  let st := symLoopOld U { out := [], quotes := false, first := true } name
  [0x3A] ++ (if st.quotes then [0x22] ++ st.out ++ [0x22] else st.out)

/-- `isIdentifierChar` -/
def identChar (U : Cls) (c : Nat) : Bool := U.letter c || U.number c || c == 0x5F

/-- `for isIdentifierChar(l.peekChar()) { l.advanceChar() }`: number of bytes consumed -/
def identRun (U : Cls) (src : Bytes) : Nat :=
  match src with
  | [] => 0
  | b :: rest =>
    let p := decodeRune (b :: rest)
    if identChar U p.1 then p.2 + identRun U ((b :: rest).drop p.2) else 0
termination_by src.length
decreasing_by
  have h1 := decodeRune_width_pos (b :: rest) (by simp)
  have h2 := decodeRune_width_le (b :: rest)
  simp only [List.length_drop, List.length_cons] at *
  omega

/-- the identifier / constant / keyword token at the head of `src` (`scanNormal` default branch,
`publicIdentifier`, `privateIdentifier`): number of bytes of the token, `none` when the first
character does not start one. Keyword tokens carry their own text (`FetchValue`). -/
def identToken (U : Cls) (src : Bytes) : Option Nat :=
  let p := decodeRune src
  if p.2 = 0 then none
  else if p.1 = 0x5F then
    let q := decodeRune (src.drop 1)
    if q.2 ≠ 0 ∧ (U.upper q.1 ∨ U.lower q.1) then some (1 + q.2 + identRun U (src.drop (1 + q.2)))
    else some 1
  else if U.letter p.1 then some (p.2 + identRun U (src.drop p.2))
  else none

/-- parser `symbolLiteral` on the source `:…` (the literal must be the whole source) -/
def readSymbol (U : Cls) (src : Bytes) : Option Bytes :=
  match src with
  | c :: rest =>
    if c ≠ 0x3A then none
    else
      let ident : Option Bytes :=
        match identToken U rest with
        | some k => if k = rest.length then some rest else none
        | none => none
      match rest with
      | q :: body => if q = 0x22 then readLoop U.letter body [] else ident
      | [] => ident
  | [] => none

/-! ### Int -/

def digitChar (d : Nat) : UInt8 := byte (0x30 + d)

/-- decimal digits of a natural number, most significant first (`strconv.FormatInt(…, 10)`) -/
def natDigits (n : Nat) : List Nat :=
  if _h : n < 10 then [n] else natDigits (n / 10) ++ [n % 10]
termination_by n
decreasing_by omega

/-- `SmallInt.Inspect` / `BigInt.Inspect` -/
def showInt (n : Int) : Bytes :=
  (if n < 0 then [0x2D] else []) ++ (natDigits n.natAbs).map digitChar

inductive IntErr where
  | format
deriving Repr, DecidableEq

/-- `letterToLower(c) = c | 0x20` restricted to what the callers test -/
def lowerByte (b : UInt8) : Nat := if 0x41 ≤ b.toNat ∧ b.toNat ≤ 0x5A then b.toNat + 0x20 else b.toNat

/-- digit value in `parseUBigInt`'s loop: `_` skipped (none), `0-9`, letters (either case) -/
inductive DigitRes where
  | skip | val (d : Nat) | bad
deriving Repr, DecidableEq

def digitOf (b : UInt8) : DigitRes :=
  let x := b.toNat
  if x = 0x5F then .skip
  else if 0x30 ≤ x ∧ x ≤ 0x39 then .val (x - 0x30)
  else if (0x61 ≤ x ∧ x ≤ 0x7A) then .val (x - 0x61 + 10)
  else if (0x41 ≤ x ∧ x ≤ 0x5A) then .val (x - 0x41 + 10)
  else .bad

/-- the accumulation loop of `parseUBigInt` -/
def parseDigits (base : Nat) : Bytes → Nat → Except IntErr Nat
  | [], acc => .ok acc
  | b :: rest, acc =>
    match digitOf b with
    | .skip => parseDigits base rest acc
    | .val d => if d ≥ base then .error .format else parseDigits base rest (acc * base + d)
    | .bad => .error .format

/-- base prefix detection of `parseUBigInt` for `base == 0` -/
def detectBase (s : Bytes) : Nat × Bytes :=
  match s with
  | b0 :: b1 :: rest =>
    if b0 = 0x30 ∧ rest ≠ [] then
      let l := lowerByte b1
      if l = 0x62 then (2, rest)
      else if l = 0x71 then (4, rest)
      else if l = 0x6F then (8, rest)
      else if l = 0x64 then (12, rest)
      else if l = 0x78 then (16, rest)
      else (10, s)
    else (10, s)
  | _ => (10, s)

/-- `parseUBigInt` -/
def parseUBigInt (s : Bytes) (base : Int) : Except IntErr Nat :=
  if s = [] then .error .format
  else if 2 ≤ base ∧ base ≤ 36 then parseDigits base.toNat s 0
  else if base = 0 then
    let (b, s') := detectBase s
    parseDigits b s' 0
  else .error .format

/-- `ParseBigIntWithErr` -/
def parseBigInt (s : Bytes) (base : Int) : Except IntErr Int :=
  match s with
  | [] => .error .format
  | b :: rest =>
    if b = 0x2B then (parseUBigInt rest base).map Int.ofNat
    else if b = 0x2D then (parseUBigInt rest base).map (fun n => - Int.ofNat n)
    else (parseUBigInt s base).map Int.ofNat

/-- digit sets of `numberLiteral` (`binaryLiteralChars` … `hexLiteralChars`); `base` is one of
2, 4, 8, 10, 12, 16; letters (either case) only in bases 12 and 16 -/
def digitSet (base : Nat) (b : UInt8) : Bool :=
  match digitOf b with
  | .val d => d < base && (d < 10 || base = 12 || base = 16)
  | _ => false

/-- `consumeDigits`: at most one `_` is skipped before each digit; returns lexeme digits and rest -/
def consumeDigits (base : Nat) : Nat → Bytes → Bytes × Bytes
  | 0, src => ([], src)
  | fuel + 1, src =>
    let src1 := match src with
      | b :: t => if b = 0x5F then t else src
      | [] => src
    match src1 with
    | b :: t => if digitSet base b then
        let (ds, r) := consumeDigits base fuel t
        (b :: ds, r)
      else ([], src1)
    | [] => ([], src1)

/-- the base prefix test at the start of `numberLiteral`: `(base, lower-case letter)` -/
def lexPrefix (d0 : UInt8) (rest : Bytes) : Option (Nat × UInt8) :=
  if d0 = 0x30 then
    match rest with
    | b1 :: _ =>
      let l := lowerByte b1
      if l = 0x78 then some (16, 0x78) else if l = 0x64 then some (12, 0x64)
      else if l = 0x6F then some (8, 0x6F) else if l = 0x71 then some (4, 0x71)
      else if l = 0x62 then some (2, 0x62) else none
    | [] => none
  else none

/-- `numberLiteral` for integer literals without suffix: the INT token's value (lexeme with a
lower-case prefix and without underscores) when the literal is the whole source. -/
def lexInt (src : Bytes) : Option Bytes :=
  match src with
  | d0 :: rest =>
    if ¬ (0x30 ≤ d0.toNat ∧ d0.toNat ≤ 0x39) then none
    else
      match lexPrefix d0 rest with
      | some (base, letter) =>
        let (ds, r) := consumeDigits base (rest.length + 1) (rest.drop 1)
        if r = [] then some (d0 :: letter :: ds) else none
      | none =>
        let (ds, r) := consumeDigits 10 (rest.length + 1) rest
        if r = [] then some (d0 :: ds) else none
  | [] => none

/-- lex + `resolveInt`: the value of an integer literal (whole source) -/
def readIntLit (src : Bytes) : Option Int :=
  match lexInt src with
  | some lexeme => match parseBigInt lexeme 0 with
    | .ok v => some v
    | .error _ => none
  | none => none

/-- evaluate `inspect` output of an Int: optional unary minus applied to a literal -/
def readInt (src : Bytes) : Option Int :=
  match src with
  | b :: rest => if b = 0x2D then (readIntLit rest).map (fun v => -v) else readIntLit src
  | [] => readIntLit src

end Elk.Inspect
