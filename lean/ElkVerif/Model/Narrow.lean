/-!
# Flow-sensitive narrowing — model of the decision tables of `types/checker/narrow.go` (C02)

Types are abstracted to subsets of a finite universe of values
`{nil, false, true, 1, 2, "a"}` (two values of one class, one of another, the three falsy/boolean
singletons): everything the tables consult is `IsFalsy / IsTruthy / IsNil / IsNotNilable`,
intersection, difference and `never`.

* `Assumption` with `negate` / `toNilable`            — narrow.go:12-47
* `check`  : typing of the condition shapes           — checker.go checkLogicalAnd/Or, checkNilCoalescingOperator,
                                                          checkNotOperator, checkEqual, checkIsA/InstanceOf
* `narrow` : `narrowCondition` and the tables it dispatches to — narrow.go:142-503
* `eval`   : evaluation rules of `! && || ?? == != <: <<:`

Core Lean only.
-/
namespace Elk.Narrow

inductive Val where
  | nil | fls | tru | i1 | i2 | s1
deriving DecidableEq, Repr, Inhabited

def Val.all : List Val := [.nil, .fls, .tru, .i1, .i2, .s1]

def Val.truthy : Val → Bool
  | .nil => false
  | .fls => false
  | _ => true

/-- a static type = the set of universe values it admits -/
abbrev Ty := Val → Bool

def Ty.never : Ty := fun _ => false
def Ty.single (v : Val) : Ty := fun w => w == v
def Ty.bool : Ty := fun w => w == .fls || w == .tru
def Ty.inter (a b : Ty) : Ty := fun w => a w && b w
def Ty.union (a b : Ty) : Ty := fun w => a w || b w
def Ty.diff (a b : Ty) : Ty := fun w => a w && !b w

/-- `IsTruthy`: neither `false` nor `nil` is a member (`!CanBeFalsy`) -/
def Ty.isTruthy (t : Ty) : Bool := !t .fls && !t .nil
/-- `IsFalsy`: `t & ~false & ~nil` is `never` (`!CanBeTruthy`) -/
def Ty.isFalsy (t : Ty) : Bool := !t .tru && !t .i1 && !t .i2 && !t .s1
/-- `IsNil`: the type is `nil` itself -/
def Ty.isNil (t : Ty) : Bool := t .nil && !t .fls && !t .tru && !t .i1 && !t .i2 && !t .s1
/-- `IsNotNilable` -/
def Ty.isNotNilable (t : Ty) : Bool := !t .nil

/-- `ToNonFalsy` = `t & ~nil & ~false` -/
def Ty.nonFalsy (t : Ty) : Ty := fun w => t w && w.truthy
/-- `ToNonTruthy` = `t & (nil | false)` -/
def Ty.nonTruthy (t : Ty) : Ty := fun w => t w && !w.truthy
/-- `ToNonNilable` = `t & ~nil` -/
def Ty.nonNilable (t : Ty) : Ty := fun w => t w && w != .nil

inductive Assumption where
  | truthy | falsy | nil | notNil | never
deriving DecidableEq, Repr, Inhabited

/-- narrow.go `assumption.negate` -/
def Assumption.negate : Assumption → Assumption
  | .truthy => .falsy
  | .falsy => .truthy
  | .nil => .notNil
  | .notNil => .nil
  | .never => .never

/-- narrow.go `assumption.toNilable` -/
def Assumption.toNilable : Assumption → Assumption
  | .truthy => .notNil
  | .falsy => .nil
  | a => a

/-- the value `v` of the condition satisfies the assumption -/
def Assumption.sat : Assumption → Val → Bool
  | .truthy, v => v.truthy
  | .falsy, v => !v.truthy
  | .nil, v => v == .nil
  | .notNil, v => v != .nil
  | .never, _ => false

/-- condition shapes `narrowCondition` dispatches on (source level) -/
inductive Cond where
  | var (x : Nat)
  | lit (v : Val)
  | not (c : Cond)
  | and (a b : Cond)
  | or (a b : Cond)
  | nilco (a b : Cond)
  | eq (a b : Cond)
  | ne (a b : Cond)
  | isA (x : Nat) (t : Ty)        -- `x <: C`, `t` = the instances of `C`
  | instOf (x : Nat) (t : Ty)     -- `x <<: C`
deriving Inhabited

/-- checked conditions: every node carries the static type the checker gave it -/
inductive ACond where
  | var (x : Nat) (τ : Ty)
  | lit (v : Val) (τ : Ty)
  | not (c : ACond)
  | and (a b : ACond) (τ : Ty)
  | or (a b : ACond) (τ : Ty)
  | nilco (a b : ACond) (τ : Ty)
  | eq (a b : ACond)
  | ne (a b : ACond)
  | isA (x : Nat) (t : Ty)
  | instOf (x : Nat) (t : Ty)
deriving Inhabited

def ACond.ty : ACond → Ty
  | .var _ τ | .lit _ τ | .and _ _ τ | .or _ _ τ | .nilco _ _ τ => τ
  | .not _ | .eq _ _ | .ne _ _ | .isA _ _ | .instOf _ _ => Ty.bool

abbrev TEnv := Nat → Ty       -- static types of the locals
abbrev VEnv := Nat → Val      -- their run-time values

def TEnv.set (Γ : TEnv) (x : Nat) (t : Ty) : TEnv := fun y => if y = x then t else Γ y

def boolV (b : Bool) : Val := if b then .tru else .fls

/-- evaluation rules -/
def eval (ρ : VEnv) : ACond → Val
  | .var x _ => ρ x
  | .lit v _ => v
  | .not c => boolV (!(eval ρ c).truthy)
  | .and a b _ => if (eval ρ a).truthy then eval ρ b else eval ρ a
  | .or a b _ => if (eval ρ a).truthy then eval ρ a else eval ρ b
  | .nilco a b _ => if eval ρ a = .nil then eval ρ b else eval ρ a
  | .eq a b => boolV (eval ρ a == eval ρ b)
  | .ne a b => boolV (eval ρ a != eval ρ b)
  | .isA x t => boolV (t (ρ x))
  | .instOf x t => boolV (t (ρ x))

/-- which of the repaired rows are in force (`false` = the code as it was found) -/
structure Cfg where
  orNilFixed : Bool       -- `a || b` under `nil`
  andNotNilFixed : Bool   -- `a && b` under `notNil`

/-- `narrowLocal` -/
def narrowLocal (Γ : TEnv) (x : Nat) (τ : Ty) : Assumption → TEnv
  | .truthy => Γ.set x τ.nonFalsy
  | .falsy => Γ.set x τ.nonTruthy
  | .never => Γ.set x Ty.never
  | .nil => Γ.set x (Ty.single .nil)
  | .notNil => Γ.set x τ.nonNilable

/-- `narrowToIntersectWith`: only identifiers are narrowed -/
def intersectWith (Γ : TEnv) (c : ACond) (t : Ty) : TEnv :=
  match c with
  | .var x _ => Γ.set x ((Γ x).inter t)
  | _ => Γ

/-- `narrowIsA` / `narrowInstanceOf` (same table; `t` is the class resp. exact-class instance set) -/
def narrowIsA (Γ : TEnv) (x : Nat) (t : Ty) : Assumption → TEnv
  | .truthy => Γ.set x t
  | .falsy => Γ.set x ((Γ x).diff t)
  | .notNil => Γ
  | .never | .nil => Γ.set x Ty.never

/-- `narrowCondition` with `narrowUnary`, `narrowLogicalAnd/Or`, `narrowNilCoalescing`, `narrowBinary`,
`narrowEqual`.  The type environment is threaded exactly as the Go code mutates `local.typ`. -/
def narrow (cfg : Cfg) : ACond → Assumption → TEnv → TEnv
  | .var x τ, A, Γ => narrowLocal Γ x τ A
  | .lit _ _, _, Γ => Γ
  | .not c, A, Γ => narrow cfg c A.negate Γ
  | .and a b _, A, Γ =>
    match A with
    | .truthy =>
      if a.ty.isFalsy || b.ty.isFalsy then narrow cfg b .never (narrow cfg a .never Γ)
      else narrow cfg b .truthy (narrow cfg a .truthy Γ)
    | .notNil =>
      if cfg.andNotNilFixed then
        if a.ty.isNil then narrow cfg b .never (narrow cfg a .never Γ)
        else narrow cfg a .notNil Γ
      else
        if a.ty.isNil || b.ty.isNil then narrow cfg b .never (narrow cfg a .never Γ)
        else narrow cfg b .notNil (narrow cfg a .notNil Γ)
    | .never => narrow cfg b .never (narrow cfg a .never Γ)
    | .falsy =>
      if a.ty.isTruthy then narrow cfg b .falsy Γ
      else if b.ty.isTruthy then narrow cfg a .falsy Γ
      else Γ
    | .nil => Γ
  | .or a b _, A, Γ =>
    match A with
    | .falsy =>
      if a.ty.isTruthy || b.ty.isTruthy then narrow cfg b .never (narrow cfg a .never Γ)
      else narrow cfg b .falsy (narrow cfg a .falsy Γ)
    | .nil =>
      if cfg.orNilFixed then
        if a.ty.isTruthy || b.ty.isNotNilable then narrow cfg b .never (narrow cfg a .never Γ)
        else narrow cfg b .nil (narrow cfg a .falsy Γ)
      else
        if a.ty.isNotNilable || b.ty.isNotNilable then narrow cfg b .never (narrow cfg a .never Γ)
        else narrow cfg b .nil (narrow cfg a .nil Γ)
    | .never => narrow cfg b .never (narrow cfg a .never Γ)
    | .truthy =>
      if a.ty.isFalsy then narrow cfg b .truthy Γ
      else if b.ty.isFalsy then narrow cfg a .truthy Γ
      else Γ
    | .notNil =>
      if a.ty.isFalsy then narrow cfg b .notNil Γ else Γ
  | .nilco a b _, A, Γ =>
    match A with
    | .nil =>
      if a.ty.isNotNilable || b.ty.isNotNilable then narrow cfg b .never (narrow cfg a .never Γ)
      else narrow cfg b .nil (narrow cfg a .nil Γ)
    | .never => narrow cfg b .never (narrow cfg a .never Γ)
    | .notNil =>
      if a.ty.isNil then narrow cfg b .notNil Γ
      else if b.ty.isNil then narrow cfg a .notNil Γ
      else Γ
    | _ => Γ
  | .eq a b, A, Γ =>
    match A with
    | .truthy => intersectWith (intersectWith Γ a b.ty) b a.ty
    | .nil => narrow cfg b .never (narrow cfg a .never Γ)
    | _ => Γ
  | .ne a b, A, Γ =>
    match A.negate with
    | .truthy => intersectWith (intersectWith Γ a b.ty) b a.ty
    | .nil => narrow cfg b .never (narrow cfg a .never Γ)
    | _ => Γ
  | .isA x t, A, Γ => narrowIsA Γ x t A
  | .instOf x t, A, Γ => narrowIsA Γ x t A

/-- typing of the condition shapes: the right operand of `&& || ??` is checked in the environment
narrowed by the left operand (`truthy`, `falsy`, `nil`), and the result types are those of
`checkLogicalAnd`, `checkLogicalOr`, `checkNilCoalescingOperator`. -/
def check (cfg : Cfg) (Γ : TEnv) : Cond → ACond
  | .var x => .var x (Γ x)
  | .lit v => .lit v (Ty.single v)
  | .not c => .not (check cfg Γ c)
  | .and a b =>
    let a' := check cfg Γ a
    let b' := check cfg (narrow cfg a' .truthy Γ) b
    let τ := if a'.ty.isTruthy then b'.ty else if a'.ty.isFalsy then a'.ty else a'.ty.nonTruthy.union b'.ty
    .and a' b' τ
  | .or a b =>
    let a' := check cfg Γ a
    let b' := check cfg (narrow cfg a' .falsy Γ) b
    let τ := if a'.ty.isTruthy then a'.ty else if a'.ty.isFalsy then b'.ty else a'.ty.nonFalsy.union b'.ty
    .or a' b' τ
  | .nilco a b =>
    let a' := check cfg Γ a
    let b' := check cfg (narrow cfg a' .nil Γ) b
    let τ := if a'.ty.isNil then b'.ty else if a'.ty.isNotNilable then a'.ty else a'.ty.nonNilable.union b'.ty
    .nilco a' b' τ
  | .eq a b => .eq (check cfg Γ a) (check cfg Γ b)
  | .ne a b => .ne (check cfg Γ a) (check cfg Γ b)
  | .isA x t => .isA x t
  | .instOf x t => .instOf x t

/-- static environments of the two branches of `if c` -/
def thenEnv (cfg : Cfg) (Γ : TEnv) (c : Cond) : TEnv := narrow cfg (check cfg Γ c) .truthy Γ
def elseEnv (cfg : Cfg) (Γ : TEnv) (c : Cond) : TEnv := narrow cfg (check cfg Γ c) .falsy Γ

end Elk.Narrow
