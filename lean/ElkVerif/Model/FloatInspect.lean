import ElkVerif.Model.Inspect
/-
C19, floats — `Float.Inspect`, `Float64.Inspect`, `Float32.Inspect` (value/float.go, float64.go,
float32.go) as wrappers around Go's `strconv` (`%g`, `%.1f`), and the lexer's `numberLiteral`
on decimal sources (lexer/lexer.go) followed by `strconv.ParseFloat` (compiler/resolve.go
`resolveFloat*`). `strconv` is an abstract parameter (`Strconv`); its shortest round trip is a
stated hypothesis of the theorems, never an axiom. Core Lean only.
-/
namespace Elk.FloatInspect
open Elk.Utf8 Elk.Inspect

/-- what the model needs to know about a float type and Go's formatting/parsing of it -/
structure Strconv (F : Type) where
  isNaN : F → Bool
  isPosInf : F → Bool
  isNegInf : F → Bool
  isInt : F → Bool                 -- `Float.IsInt` (finite and integral)
  fmtG : F → Bytes                 -- `fmt.Sprintf("%g", f)`
  fmtF1 : F → Bytes                -- `fmt.Sprintf("%.1f", f)`
  parse : Bytes → Option F         -- `strconv.ParseFloat(lexeme, bits)`
  neg : F → F                      -- unary minus (`value.NegateVal`)

inductive Kind | float | float64 | float32
deriving DecidableEq

def className : Kind → Bytes
  | .float => "Std::Float".toUTF8.toList
  | .float64 => "Std::Float64".toUTF8.toList
  | .float32 => "Std::Float32".toUTF8.toList

def suffix : Kind → Bytes
  | .float => []
  | .float64 => [0x66, 0x36, 0x34]
  | .float32 => [0x66, 0x33, 0x32]

/-- `Float.Inspect` / `Float64.Inspect` / `Float32.Inspect` -/
def inspectFloat {F : Type} (S : Strconv F) (k : Kind) (x : F) : Bytes :=
  if S.isNaN x then className k ++ "::NAN".toUTF8.toList
  else if S.isPosInf x then className k ++ "::INF".toUTF8.toList
  else if S.isNegInf x then className k ++ "::NEG_INF".toUTF8.toList
  else if k = .float ∧ S.isInt x then S.fmtF1 x       -- only `Float` forces `.0`
  else S.fmtG x ++ suffix k

def isDec (b : UInt8) : Bool := 0x30 ≤ b.toNat && b.toNat ≤ 0x39

/-- token kinds `numberLiteral` can produce on a decimal source -/
inductive NumTok | int | float | float64 | float32
deriving DecidableEq, Repr

/-- `if l.acceptChar('.') && isDigit(l.peekNextChar()) { … consumeDigits … }`:
(lexeme so far, rest) ↦ (lexeme, rest, saw a fraction) -/
def fracStage (lex1 r1 : Bytes) : Bytes × Bytes × Bool :=
  match r1 with
  | dot :: nx :: t =>
    if dot = 0x2E ∧ isDec nx = true then
      let p := consumeDigits 10 (t.length + 2) (nx :: t)
      (lex1 ++ [0x2E] ++ p.1, p.2, true)
    else (lex1, r1, false)
  | _ => (lex1, r1, false)

/-- `if l.matchChars("eE") { 'e'; [+-]; consumeDigits }` -/
def expStage (lex2 r2 : Bytes) (isF : Bool) : Bytes × Bytes × Bool :=
  match r2 with
  | e :: t =>
    if e = 0x65 ∨ e = 0x45 then
      let st : Bytes × Bytes :=
        match t with
        | s :: u => if s = 0x2B ∨ s = 0x2D then ([s], u) else ([], t)
        | [] => ([], t)
      let p := consumeDigits 10 (st.2.length + 1) st.2
      (lex2 ++ [0x65] ++ st.1 ++ p.1, p.2, true)
    else (lex2, r2, isF)
  | [] => (lex2, r2, isF)

/-- `numberLiteral` on a source that starts with a decimal digit and is not a prefixed literal:
`(token type, lexeme)` when the token is the whole source. Mirrors: digits, then `.` + digit →
fraction, then `e|E` [`+|-`] digits, then `f64`/`f32`. (`i`/`u`/`bf` suffixes: not a float token → none) -/
def lexNumber (src : Bytes) : Option (NumTok × Bytes) :=
  match src with
  | d0 :: rest =>
    if ¬ isDec d0 = true then none
    else if (lexPrefix d0 rest).isSome then none
    else
      let p1 := consumeDigits 10 (rest.length + 1) rest
      let s2 := fracStage (d0 :: p1.1) p1.2
      let s3 := expStage s2.1 s2.2.1 s2.2.2
      if s3.2.1 = [] then some (if s3.2.2 then .float else .int, s3.1)
      else if s3.2.1 = [0x66, 0x36, 0x34] then some (.float64, s3.1)
      else if s3.2.1 = [0x66, 0x33, 0x32] then some (.float32, s3.1)
      else none
  | [] => none

def tokOf : Kind → NumTok
  | .float => .float | .float64 => .float64 | .float32 => .float32

/-- evaluate the inspect output of a finite float: optional unary minus, a float literal of the
right kind, `strconv.ParseFloat` on the lexeme -/
def readFinite {F : Type} (S : Strconv F) (k : Kind) (src : Bytes) : Option F :=
  let go (s : Bytes) : Option F :=
    match lexNumber s with
    | some (t, lexeme) => if t = tokOf k then S.parse lexeme else none
    | none => none
  match src with
  | b :: rest => if b = 0x2D then (go rest).map S.neg else go src
  | [] => none

end Elk.FloatInspect
