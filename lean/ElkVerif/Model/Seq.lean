/-
Model of `value/array_list_of_value.go` (and, element type aside, `value/native_array_list.go`,
`value/array_tuple_of_value.go`) on top of an explicit model of Go slices:

* a heap of backing arrays (`List (List Val)`, an array never changes length),
* slice headers `(arr, off, len, cap)`; an Elk list object is a *mutable header* (`*l = append(*l, …)`),
* Go's `append` (in place iff `len + n ≤ cap`, else a fresh array of capacity `growslice`),
  `copy`, reslicing, `make`.

The growth policy `g oldCap needed` (Go's `growslice`, size-class rounding included) is a parameter:
the driver instantiates it with `goGrow` over a size-class table probed from the real runtime
(`Gen/GrowCap.lean`); every theorem holds for all `g`.
Go `int` indices are `Int` (no arithmetic in this file can overflow: indices are compared, or added
to a length they were just compared with).  Core Lean only.
-/
namespace Elk.Seq

inductive Val where
  | undef            -- Go zero `value.Value` (slots made by `make`)
  | nil              -- Elk `nil`
  | i (n : Int)
deriving DecidableEq, Repr, Inhabited

structure Slice where
  arr : Nat
  off : Nat
  len : Nat
  cap : Nat
deriving DecidableEq, Repr, Inhabited

structure St where
  heap : List (List Val)
  objs : List Slice
deriving Repr, DecidableEq

def St.init : St := ⟨[], []⟩

/-- answers of one operation -/
inductive Ans where
  | unit
  | val (v : Val)
  | bool (b : Bool)
  | obj (id : Nat)
  | vals (vs : List Val)
  | oor        -- IndexOutOfRange error (`NormalizeArrayIndex`)
  | negIndex   -- NegativeIndicesInCollectionLiterals
  | negCount   -- repeat count negative (OutOfRangeError)
  | tooLarge   -- repeat count too large (OutOfRangeError)
  | negCap     -- negative capacity (vm `grow`)
  | panic      -- Go run-time panic (index out of range, slice bounds, makeslice)
  | bad        -- ill-formed operation (dangling object id): never happens in a well-formed state
deriving DecidableEq, Repr, Inhabited

/-- `NormalizeArrayIndex(index, length)` -/
def normIndex (index : Int) (length : Nat) : Option Nat :=
  if index ≥ length ∨ index < -(length : Int) then none
  else if index < 0 then some ((length : Int) + index).toNat
  else some index.toNat

/-- the object header together with its backing array, or `none` for a dangling id -/
def look (st : St) (id : Nat) : Option (Slice × List Val) :=
  match st.objs[id]? with
  | none => none
  | some s =>
    match st.heap[s.arr]? with
    | none => none
    | some a => some (s, a)

/-- the elements a header shows of its array -/
def window (s : Slice) (a : List Val) : List Val := (a.drop s.off).take s.len

/-- the sequence an object denotes (the abstraction) -/
def view (st : St) (id : Nat) : Option (List Val) :=
  match look st id with
  | some (s, a) => some (window s a)
  | none => none

/-- overwrite `xs` into `a` starting at `p` (Go `copy(a[p:], xs)` with `p + |xs| ≤ |a|`) -/
def writeAt (a : List Val) (p : Nat) (xs : List Val) : List Val :=
  a.take p ++ xs ++ a.drop (p + xs.length)

/-- `make([]T, len(xs), cap)` followed by `copy`: a fresh array holding `xs`, zero padded -/
def mkArr (xs : List Val) (cap : Nat) : List Val :=
  xs ++ List.replicate (cap - xs.length) Val.undef

/-- allocate a fresh array for `xs` with capacity `max cap |xs|` and a new object over it -/
def allocObj (st : St) (xs : List Val) (cap : Nat) : St × Nat :=
  let c := max cap xs.length
  (⟨st.heap ++ [mkArr xs c], st.objs ++ [⟨st.heap.length, 0, xs.length, c⟩]⟩, st.objs.length)

/-- move object `id` to a fresh array holding `xs` with capacity `max cap |xs|` -/
def reallocObj (st : St) (id : Nat) (xs : List Val) (cap : Nat) : St :=
  let c := max cap xs.length
  ⟨st.heap ++ [mkArr xs c], st.objs.set id ⟨st.heap.length, 0, xs.length, c⟩⟩

/-- write `xs` at element position `p` of the object's window and set its length -/
def writeObj (st : St) (id : Nat) (s : Slice) (a : List Val) (p : Nat) (xs : List Val) (newLen : Nat) : St :=
  ⟨st.heap.set s.arr (writeAt a (s.off + p) xs), st.objs.set id { s with len := newLen }⟩

/-- Go `*l = append(*l, xs...)` -/
def goAppend (g : Nat → Nat → Nat) (st : St) (id : Nat) (xs : List Val) : Option St :=
  match look st id with
  | none => none
  | some (s, a) =>
    if s.len + xs.length ≤ s.cap then
      some (writeObj st id s a s.len xs (s.len + xs.length))
    else
      some (reallocObj st id (window s a ++ xs) (g s.cap (s.len + xs.length)))

/-- Go `nextslicecap(newLen, oldCap)` (runtime/slice.go), before size-class rounding -/
def nextCapLoop : Nat → Nat → Nat → Nat
  | 0, newcap, _ => newcap
  | fuel + 1, newcap, newLen =>
    let nc := newcap + (newcap + 768) / 4
    if nc ≥ newLen then nc else nextCapLoop fuel nc newLen

def nextSliceCap (newLen oldCap : Nat) : Nat :=
  let doublecap := oldCap + oldCap
  if newLen > doublecap then newLen
  else if oldCap < 256 then doublecap
  else nextCapLoop newLen oldCap newLen

/-- `growslice` capacity: `nextslicecap` then rounding up to a malloc size class, read from a table
`round[n]` = capacity obtained for a request of `n` elements (probed from the Go runtime). -/
def goGrow (round : List Nat) (oldCap needed : Nat) : Nat :=
  let c := nextSliceCap needed oldCap
  match round[c]? with
  | some r => r
  | none => c

/-- the range kinds `Tuple#slice` distinguishes (vm/tuple.go), with their integer bounds -/
inductive RangeK where
  | closed (s e : Int)          -- s...e
  | leftOpen (s e : Int)        -- s<..e
  | rightOpen (s e : Int)       -- s..<e
  | open (s e : Int)            -- s<.<e
  | beginlessOpen (e : Int)     -- ..<e
  | beginlessClosed (e : Int)   -- ...e
  | endlessOpen (s : Int)       -- s<..
  | endlessClosed (s : Int)     -- s...
deriving Repr, DecidableEq

/-- first and last index (inclusive) a range denotes for a sequence of `len` elements:
`start := 0; end := length - 1` and the `switch` over the range kinds -/
def RangeK.bounds (len : Nat) : RangeK → Int × Int
  | .closed s e => (s, e)
  | .leftOpen s e => (s + 1, e)
  | .rightOpen s e => (s, e - 1)
  | .open s e => (s + 1, e - 1)
  | .beginlessOpen e => (0, e - 1)
  | .beginlessClosed e => (0, e)
  | .endlessOpen s => (s + 1, (len : Int) - 1)
  | .endlessClosed s => (s, (len : Int) - 1)

inductive Op where
  | new (cap : Nat)                       -- NewArrayListOfValue(cap)
  | lit (cap : Nat) (xs : List Val)       -- NewArrayListOfValueWithElements(cap, xs...)
  | wlen (n : Nat)                        -- NewArrayListOfValueWithLength(n)
  | push (o : Nat) (xs : List Val)        -- Append(xs...)
  | pushEach (o : Nat) (xs : List Val)    -- NativeArrayList.AppendVal(xs...): one `append` per element
  | get (o : Nat) (i : Int)               -- Get(i)
  | set (o : Nat) (i : Int) (v : Val)     -- Set(i, v)
  | at (o : Nat) (i : Int)                -- At(i) (no bounds check)
  | rme (o : Nat) (i : Int)               -- RemoveAtErr(i)
  | rm (o : Nat) (i : Int)                -- RemoveAt(i) (no bounds check)
  | grow (o : Nat) (n : Int)              -- Grow(n)
  | exp (o : Nat) (n : Int)               -- Expand(n)
  | apat (o : Nat) (i : Int) (v : Val)    -- AppendAtInt(i, v)
  | cat (a b : Nat)                       -- a.Concat(b)  (both of the same implementation type)
  | rep (a : Nat) (n : Option Int)        -- a.Repeat(n); `none` = a BigInt count
  | sl (a : Nat) (f t : Int)              -- a.SliceArrayList(f, t)
  | cp (a : Nat)                          -- a.Copy()
  | cl (a : Nat) (cap : Int)              -- a.CloneArrayList(cap)
  | vsl (o : Nat) (r : RangeK)            -- vm: `[]` with a range / Tuple#slice: a new list of the elements
  | vrem (o : Nat) (v : Val)              -- vm: ArrayList#remove
  | veq (a b : Nat)                       -- vm: ArrayList#==
  | vcon (o : Nat) (v : Val)              -- vm: contains
  | iter (o : Nat) (k : Nat)              -- fresh iterator, `NextValue` k times
  | len (o : Nat)                         -- Length()
deriving Repr, DecidableEq

/-- `RemoveAt(i)` on a window `w` whose first `n` elements are live: `copy(s[i:], s[i+1:])`,
the old last element stays behind in the now spare slot. -/
def rmShift (w : List Val) (n i : Nat) : List Val :=
  w.take i ++ (w.drop (i + 1)).take (n - 1 - i) ++ w.drop (n - 1)

/-- `ArrayList#remove` (vm/array_list.go):
`for i := 0; i < self.Length(); i++ { if At(i) == v { self.RemoveAt(i); removed = true; i-- } }`
(the element that slides into slot `i` is examined next). `fuel` bounds the iterations: each one
either advances `i` or shrinks `n`. -/
def vremLoop (v : Val) : Nat → List Val → Nat → Nat → Bool → List Val × Nat × Bool
  | 0, w, n, _, r => (w, n, r)
  | fuel + 1, w, n, i, r =>
    if i < n then
      if w[i]? = some v then vremLoop v fuel (rmShift w n i) (n - 1) i true
      else vremLoop v fuel w n (i + 1) r
    else (w, n, r)

/-- what `remove` should do: drop every occurrence -/
def removeAll (v : Val) : List Val → List Val
  | [] => []
  | x :: xs => if x = v then removeAll v xs else x :: removeAll v xs

/-- `for _, e := range xs { *l = append(*l, e) }` -/
def appendEach (g : Nat → Nat → Nat) (st : St) (id : Nat) : List Val → Option St
  | [] => (look st id).map fun _ => st
  | x :: xs =>
    match goAppend g st id [x] with
    | some st' => appendEach g st' id xs
    | none => none

/-- int64 bounds of Go's `int` -/
def maxInt : Int := 9223372036854775807
/-- Go's `maxAlloc` on linux/amd64 (2^48 bytes); a `make` of at least that many elements panics -/
def maxAlloc : Int := 281474976710656

def step (g : Nat → Nat → Nat) (st : St) : Op → St × Ans
  | .new cap =>
    let (st', id) := allocObj st [] cap
    (st', .obj id)
  | .lit cap xs =>
    let (st', id) := allocObj st xs (xs.length + cap)
    (st', .obj id)
  | .wlen n =>
    let (st', id) := allocObj st (List.replicate n Val.undef) n
    (st', .obj id)
  | .push o xs =>
    match goAppend g st o xs with
    | some st' => (st', .unit)
    | none => (st, .bad)
  | .pushEach o xs =>
    match appendEach g st o xs with
    | some st' => (st', .unit)
    | none => (st, .bad)
  | .get o i =>
    match look st o with
    | none => (st, .bad)
    | some (s, a) =>
      match normIndex i s.len with
      | none => (st, .oor)
      | some j =>
        match (window s a)[j]? with
        | some v => (st, .val v)
        | none => (st, .bad)
  | .set o i v =>
    match look st o with
    | none => (st, .bad)
    | some (s, a) =>
      match normIndex i s.len with
      | none => (st, .oor)
      | some j => (writeObj st o s a j [v] s.len, .unit)
  | .at o i =>
    match look st o with
    | none => (st, .bad)
    | some (s, a) =>
      if i < 0 ∨ i ≥ s.len then (st, .panic)
      else match (window s a)[i.toNat]? with
        | some v => (st, .val v)
        | none => (st, .bad)
  | .rme o i =>
    match look st o with
    | none => (st, .bad)
    | some (s, a) =>
      match normIndex i s.len with
      | none => (st, .oor)
      | some j => (writeObj st o s a j ((window s a).drop (j + 1)) (s.len - 1), .unit)
  | .rm o i =>
    match look st o with
    | none => (st, .bad)
    | some (s, a) =>
      -- `copy(s[i:], s[i+1:])` panics unless 0 ≤ i and i+1 ≤ len
      if i < 0 ∨ i + 1 > s.len then (st, .panic)
      else (writeObj st o s a i.toNat ((window s a).drop (i.toNat + 1)) (s.len - 1), .unit)
  | .grow o n =>
    match look st o with
    | none => (st, .bad)
    | some (s, a) =>
      -- make(len, cap+n): panics when cap+n < len
      if (s.cap : Int) + n < s.len then (st, .panic)
      else (reallocObj st o (window s a) ((s.cap : Int) + n).toNat, .unit)
  | .exp o n =>
    match look st o with
    | none => (st, .bad)
    | some (s, a) =>
      if n < 1 then (st, .unit)
      else (reallocObj st o (window s a ++ List.replicate n.toNat Val.nil) (s.cap + n.toNat), .unit)
  | .apat o i v =>
    match look st o with
    | none => (st, .bad)
    | some (s, a) =>
      if i < 0 then (st, .negIndex)
      else if i ≥ s.len then
        -- Expand(i+1-len) then (*l)[i] = v
        let xs := window s a ++ List.replicate (i.toNat - s.len) Val.nil ++ [v]
        (reallocObj st o xs (s.cap + (i.toNat + 1 - s.len)), .unit)
      else (writeObj st o s a i.toNat [v] s.len, .unit)
  | .cat x y =>
    match look st x, look st y with
    | some (s, a), some (t, b) =>
      let (st', id) := allocObj st (window s a ++ window t b) (s.len + t.len)
      (st', .obj id)
    | _, _ => (st, .bad)
  | .rep x n =>
    match look st x with
    | none => (st, .bad)
    | some (s, a) =>
      match n with
      | none => (st, .tooLarge)
      | some n =>
        if n < 0 then (st, .negCount)
        else if n * s.len > maxInt then (st, .tooLarge)
        else if n * s.len ≥ maxAlloc then (st, .panic)   -- `makeslice: cap out of range`
        else
          let xs := (List.replicate n.toNat (window s a)).flatten
          let (st', id) := allocObj st xs xs.length
          (st', .obj id)
  | .sl x f t =>
    match look st x with
    | none => (st, .bad)
    | some (s, _) =>
      -- `(*l)[from:to:to]`: 0 ≤ from ≤ to ≤ cap; the result is a view sharing the array, with no spare capacity
      if f < 0 ∨ t < f ∨ t > s.cap then (st, .panic)
      else
        (⟨st.heap, st.objs ++ [⟨s.arr, s.off + f.toNat, (t - f).toNat, (t - f).toNat⟩]⟩, .obj st.objs.length)
  | .cp x =>
    match look st x with
    | none => (st, .bad)
    | some (s, a) =>
      let (st', id) := allocObj st (window s a) s.len
      (st', .obj id)
  | .cl x cap =>
    match look st x with
    | none => (st, .bad)
    | some (s, a) =>
      if cap < 0 then (st, .panic)   -- make(…, 0, cap) with a negative cap
      else if s.len ≤ cap.toNat then
        let (st', id) := allocObj st (window s a) cap.toNat
        (st', .obj id)
      else
        let (st', id) := allocObj st (window s a) (g cap.toNat s.len)
        (st', .obj id)
  | .vsl o r =>
    match look st o with
    | none => (st, .bad)
    | some (s, a) =>
      let (lo, hi) := r.bounds s.len
      match normIndex lo s.len, normIndex hi s.len with
      | some i, some j =>
        -- `var result []Value; for i := start; i <= end; i++ { result = append(result, at(i)) }`
        let (st1, id) := allocObj st [] 0
        match appendEach g st1 id (((window s a).drop i).take (j + 1 - i)) with
        | some st2 => (st2, .obj id)
        | none => (st, .bad)
      | _, _ => (st, .oor)
  | .vrem o v =>
    match look st o with
    | none => (st, .bad)
    | some (s, a) =>
      let (w, n, r) := vremLoop v s.len (window s a) s.len 0 false
      (writeObj st o s a 0 w n, .bool r)
  | .veq x y =>
    match look st x, look st y with
    | some (s, a), some (t, b) => (st, .bool (decide (window s a = window t b)))
    | _, _ => (st, .bad)
  | .vcon o v =>
    match look st o with
    | none => (st, .bad)
    | some (s, a) => (st, .bool (decide (v ∈ window s a)))
  | .iter o k =>
    match look st o with
    | none => (st, .bad)
    | some (s, a) => (st, .vals ((window s a).take k))
  | .len o =>
    match look st o with
    | none => (st, .bad)
    | some (s, _) => (st, .val (.i s.len))

def run (g : Nat → Nat → Nat) : St → List Op → St × List Ans
  | st, [] => (st, [])
  | st, op :: ops =>
    let (st', a) := step g st op
    let (st'', as) := run g st' ops
    (st'', a :: as)

end Elk.Seq
