/-!
# Zone offsets in `strftime` output: `%z` and `%:z`

Mirrors `value/datetime.go`: `Format` (cases `TIMEZONE_OFFSET`, `TIMEZONE_OFFSET_COLON`: sign, then the absolute
offset split into hours and minutes, each printed with `%02d`) and `parseDateTimeTimezoneOffset` (sign character,
two digits of hours `< 24`, optional `:`, two digits of minutes `< 60`; offset = sign · (h·3600 + m·60) seconds).
Offsets are in seconds; the implementation accepts `-86400 < offset < 86400` (`NewTimezoneFromOffsetErr`).
-/
namespace Elk.ZoneOff

def digitChar (d : Nat) : Char := Char.ofNat (48 + d)

/-- `%02d` for a number below 100 -/
def pad2 (n : Nat) : List Char := [digitChar (n / 10), digitChar (n % 10)]

def fmtOff (colon : Bool) (secs : Int) : List Char :=
  let a := secs.natAbs
  (if secs ≥ 0 then '+' else '-') :: (pad2 (a / 3600) ++ (if colon then [':'] else []) ++ pad2 (a % 3600 / 60))

def digit? (c : Char) : Option Nat :=
  if 48 ≤ c.toNat ∧ c.toNat ≤ 57 then some (c.toNat - 48) else none

def two? (a b : Char) : Option Nat :=
  match digit? a, digit? b with
  | some x, some y => some (10 * x + y)
  | _, _ => none

def sign? (c : Char) : Option Int :=
  if c = '+' then some 1 else if c = '-' then some (-1) else none

def mkOff (sg : Int) (h m : Nat) : Option Int :=
  if h < 24 ∧ m < 60 then some (sg * ((h : Int) * 3600 + (m : Int) * 60)) else none

/-- the offset (seconds) a well-formed `±hhmm` / `±hh:mm` text denotes -/
def parseOff (colon : Bool) : List Char → Option Int
  | [s, h1, h2, m1, m2] =>
    if colon then none else
    match sign? s, two? h1 h2, two? m1 m2 with
    | some sg, some h, some m => mkOff sg h m
    | _, _, _ => none
  | [s, h1, h2, c, m1, m2] =>
    if colon && c == ':' then
      match sign? s, two? h1 h2, two? m1 m2 with
      | some sg, some h, some m => mkOff sg h m
      | _, _, _ => none
    else none
  | _ => none

end Elk.ZoneOff
