import ElkVerif.Model.Num
/-!
# Model of `==`, `===` and `Hash` on the built-in value types (C18)

Mirrors `vm/value.go` `Equal` (= `value.EqualVal`, then the receiver's `==` method) and `Hash`
(= `value.Hash`, then the `hash` method — `Value#hash` falls back to `ObjectHash`), and the `==` methods of
`vm/array_list.go`, `array_tuple.go`, `pair.go`, `*_range.go`, `hash_map.go`, `hash_record.go`, `hash_set.go`,
`date.go`; for `String`/`Char` also the ordering and `=~` tables of `value/string.go`, `value/char.go`.

Compound values are trees: `node tag items`. Hash maps/records keep their entries as `k₁ v₁ k₂ v₂ …`.
Map/set equality is modelled by its specification (same size, every entry of the left has an `==` entry on the
right), which is what `HashMapOfValueEqual`/`HashSetOfValueEqual` compute when lookups are correct (C17).
-/
namespace Elk.Val
open Elk.Num

inductive RK
  | closed | opn | leftOpen | rightOpen | endlessClosed | endlessOpen | beginlessClosed | beginlessOpen
deriving DecidableEq, Repr

inductive Tag
  | list | tuple | set | map | record | pair | range (k : RK)
deriving DecidableEq, Repr

mutual
inductive Val
  | num (n : Num)
  | str (bs : List UInt8)
  | chr (c : Int)
  | sym (name : List UInt8)
  | nil
  | bool (b : Bool)
  | date (y m d : Int)
  | node (tag : Tag) (items : Items)
inductive Items
  | nil
  | cons (v : Val) (rest : Items)
end

namespace Items
def length : Items → Nat
  | .nil => 0
  | .cons _ r => r.length + 1

def ofList : List Val → Items
  | [] => .nil
  | v :: r => .cons v (ofList r)

def any (p : Val → Bool) : Items → Bool
  | .nil => false
  | .cons v r => p v || any p r

/-- `k₁ v₁ k₂ v₂ …`: some entry satisfies `p` -/
def anyPair (p : Val → Val → Bool) : Items → Bool
  | .cons k (.cons v r) => p k v || anyPair p r
  | _ => false
end Items

def Val.list (xs : List Val) : Val := .node .list (Items.ofList xs)
def Val.tuple (xs : List Val) : Val := .node .tuple (Items.ofList xs)
def Val.set (xs : List Val) : Val := .node .set (Items.ofList xs)
def Val.map (kvs : List (Val × Val)) : Val := .node .map (Items.ofList (kvs.flatMap fun (k, v) => [k, v]))
def Val.record (kvs : List (Val × Val)) : Val := .node .record (Items.ofList (kvs.flatMap fun (k, v) => [k, v]))
def Val.pair (k v : Val) : Val := .node .pair (Items.ofList [k, v])
def Val.range (k : RK) (a b : Option Val) : Val := .node (.range k) (Items.ofList (a.toList ++ b.toList))

/-! ## `==` -/

mutual
/-- `vm.Equal(left, right)` -/
def Val.eqv : Val → Val → Bool
  | .num a, .num b => eqVal a b
  | .str a, .str b => a == b
  | .chr a, .chr b => a == b
  | .sym a, .sym b => a == b
  | .nil, .nil => true
  | .bool a, .bool b => a == b
  | .date y m d, .date y' m' d' => y == y' && m == m' && d == d'
  | .node t xs, .node t' ys =>
    t == t' &&
    (match t with
     | .set => xs.length == ys.length && Items.allIn xs ys
     | .map | .record => xs.length == ys.length && Items.allPairsIn xs ys
     | _ => Items.eqv xs ys)
  | _, _ => false

/-- element-wise, same length (`ArrayTupleEqual`, `PairEqual`, `…RangeEqual`) -/
def Items.eqv : Items → Items → Bool
  | .nil, .nil => true
  | .cons a r, .cons b s => Val.eqv a b && Items.eqv r s
  | _, _ => false

/-- every element of the left has an `==` element on the right (`HashSetOfValueEqual`) -/
def Items.allIn : Items → Items → Bool
  | .nil, _ => true
  | .cons x r, ys => Items.any (fun y => Val.eqv x y) ys && Items.allIn r ys

/-- every entry of the left has an entry with `==` key and `==` value on the right (`HashMapOfValueEqual`) -/
def Items.allPairsIn : Items → Items → Bool
  | .cons k (.cons v r), ys =>
    Items.anyPair (fun k' v' => Val.eqv k k' && Val.eqv v v') ys && Items.allPairsIn r ys
  | _, _ => true
end

/-- `value.StrictEqualVal`: the receiver's `==` for the value types, identity (`left == right` on the
`Value` struct) for everything else. `same` says the two operands are the same object. -/
def Val.strictEq (same : Bool) : Val → Val → Bool
  | .num a, .num b => Elk.Num.strictEq a b
  | .node .., .node .. => same
  | a, b => Val.eqv a b

/-! ## `Hash` -/

/-- Go `string(rune)`: UTF-8, U+FFFD for surrogates and out-of-range values -/
def utf8Enc (c : Int) : List UInt8 :=
  let bad : List UInt8 := [0xEF, 0xBF, 0xBD]
  if c < 0 ∨ c > 0x10FFFF ∨ (0xD800 ≤ c ∧ c ≤ 0xDFFF) then bad
  else
    let n := c.toNat
    if n < 0x80 then [UInt8.ofNat n]
    else if n < 0x800 then [UInt8.ofNat (0xC0 + n / 64), UInt8.ofNat (0x80 + n % 64)]
    else if n < 0x10000 then
      [UInt8.ofNat (0xE0 + n / 4096), UInt8.ofNat (0x80 + n / 64 % 64), UInt8.ofNat (0x80 + n % 64)]
    else
      [UInt8.ofNat (0xF0 + n / 262144), UInt8.ofNat (0x80 + n / 4096 % 64), UInt8.ofNat (0x80 + n / 64 % 64),
       UInt8.ofNat (0x80 + n % 64)]

/-- what determines the hash of a value -/
inductive HashKey
  | bytes (bs : List UInt8)   -- xxhash64 of this byte stream
  | symbol (name : List UInt8) -- xxhash64 of the little-endian symbol id; ids are in bijection with names (C26)
  | zero                      -- `ObjectHash` of an inline value without `hash`: the constant 0
  | identity                  -- `ObjectHash` of a reference: xxhash64 of the address
deriving DecidableEq, Repr

def Val.hashKey : Val → HashKey
  | .num n => .bytes (hashBytes n)
  | .str bs => .bytes bs
  | .chr c => .bytes (utf8Enc c)
  | .sym n => .symbol n
  | .nil => .bytes [2]
  | .bool b => .bytes [if b then 1 else 0]
  | .date .. => .zero
  | .node .. => .identity

def Val.hashBytes? (v : Val) : Option (List UInt8) :=
  match v.hashKey with
  | .bytes bs => some bs
  | _ => none

/-- do the two operands hash alike (as far as the recipe determines it)? `same`: same object -/
def Val.hashEq (same : Bool) (a b : Val) : Bool :=
  match a.hashKey, b.hashKey with
  | .bytes x, .bytes y => x == y
  | .symbol x, .symbol y => x == y
  | .zero, .zero => true
  | .identity, .identity => same
  | _, _ => false

/-! ## ordering and `=~` where the check models them: numbers, and `String`/`Char` -/

/-- Go string comparison: lexicographic on bytes -/
def bytesCmp : List UInt8 → List UInt8 → Int
  | [], [] => 0
  | [], _ :: _ => -1
  | _ :: _, [] => 1
  | a :: r, b :: s => if a < b then -1 else if a > b then 1 else bytesCmp r s

def ordOfCmp (c : Int) : Res (Option Int) × Res Bool × Res Bool × Res Bool × Res Bool :=
  (.ok (some c), .ok (Ord5.lt.test c), .ok (Ord5.le.test c), .ok (Ord5.gt.test c), .ok (Ord5.ge.test c))

/-- `(<=>, <, <=, >, >=, =~)` for the pairs whose ordering the check models; `none` otherwise -/
def Val.ordered : Val → Val → Option (Res (Option Int) × Res Bool × Res Bool × Res Bool × Res Bool × Bool)
  | .num a, .num b =>
    some (compareVal a b, rel .lt a b, rel .le a b, rel .gt a b, rel .ge a b, laxEq a b)
  | .str a, .str b => let (c, l, le, g, ge) := ordOfCmp (bytesCmp a b); some (c, l, le, g, ge, a == b)
  | .str a, .chr b =>
    let (c, l, le, g, ge) := ordOfCmp (bytesCmp a (utf8Enc b)); some (c, l, le, g, ge, a == utf8Enc b)
  | .chr a, .str b =>
    let (c, l, le, g, ge) := ordOfCmp (bytesCmp (utf8Enc a) b); some (c, l, le, g, ge, utf8Enc a == b)
  | .chr a, .chr b => let (c, l, le, g, ge) := ordOfCmp (Int.sign (a - b)); some (c, l, le, g, ge, a == b)
  | _, _ => none

end Elk.Val
