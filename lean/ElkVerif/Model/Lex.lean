/-
Model for C04 (lexer/lexer.go, token/token.go, position/*.go). Core Lean only.

* `runeWidth`      — width Go's `utf8.DecodeRuneInString` reports (1 for invalid/truncated input)
* `posOf`          — line/column of a byte offset, counted the way the lexer counts: one column per
                     decoded rune, a new line after every `\n` rune
* `Tok`            — what the harness dumps for a real `token.Token` (type, span, reported positions, SGR codes)
* `spansOk`, `positionsOk`, `wellFormed` — the per-instance checker run on the real token lists
* `colorize`       — `lexer.Colorize` / `ColorizeEmbellishedText` (both have the same loop), with Go's
                     slice bounds checks made explicit; `render` = fatih/color's `wrap`
* `stripAnsi`      — textual removal of `ESC [ (digit|;)* m`
* the cursor machine — `advanceChar`, `backupChar(s)`, `incrementLine`, `skipByte`, `skipToken`,
                     `tokenWithValue` over `(start, cursor, line, column, startLine, startColumn)`

Bytes are `Nat`s (the driver only produces values < 256; the theorems hold for all lists).
Go `int`s that the code can drive negative (columns after `backupChars`) are `Int`.
-/
namespace Elk.Lex

abbrev Bytes := List Nat

structure Pos where
  line : Int
  col : Int
deriving DecidableEq, Repr, Inhabited

def isCont (b : Nat) : Bool := 0x80 ≤ b && b ≤ 0xBF

/-- `utf8.DecodeRune`: number of bytes consumed. `first[]`/`acceptRanges[]` of unicode/utf8 written out:
ASCII and invalid lead bytes → 1; a lead byte whose continuation bytes are missing or out of range → 1. -/
def runeWidth : Bytes → Nat
  | [] => 0
  | b0 :: rest =>
    if b0 < 0xC2 then 1                       -- ASCII (as) and 0x80–0xC1 (xx)
    else if b0 < 0xE0 then                    -- s1: two bytes
      match rest with
      | b1 :: _ => if isCont b1 then 2 else 1
      | _ => 1
    else if b0 < 0xF0 then                    -- s2 (E0), s3, s4 (ED): three bytes
      let lo := if b0 = 0xE0 then 0xA0 else 0x80
      let hi := if b0 = 0xED then 0x9F else 0xBF
      match rest with
      | b1 :: b2 :: _ => if lo ≤ b1 && b1 ≤ hi && isCont b2 then 3 else 1
      | _ => 1
    else if b0 < 0xF5 then                    -- s5 (F0), s6, s7 (F4): four bytes
      let lo := if b0 = 0xF0 then 0x90 else 0x80
      let hi := if b0 = 0xF4 then 0x8F else 0xBF
      match rest with
      | b1 :: b2 :: b3 :: _ => if lo ≤ b1 && b1 ≤ hi && isCont b2 && isCont b3 then 4 else 1
      | _ => 1
    else 1                                    -- 0xF5–0xFF (xx)

/-- position after a rune whose first byte is `b` (the lexer: `column += 1`; `incrementLine` after `\n`) -/
def bump (b : Nat) (p : Pos) : Pos :=
  if b = 10 then ⟨p.line + 1, 1⟩ else ⟨p.line, p.col + 1⟩

/-- Walks the runes of `bs` starting at position `p`; answers the position of the rune that contains
byte `off` (or the position just after the last rune when `off` is past the end). -/
def posFrom : (fuel : Nat) → Bytes → (off : Nat) → Pos → Pos
  | 0, _, _, p => p
  | _ + 1, [], _, p => p
  | fuel + 1, b :: rest, off, p =>
    let w := runeWidth (b :: rest)
    if off < w then p else posFrom fuel ((b :: rest).drop w) (off - w) (bump b p)

/-- line/column of byte offset `off` of `src` (1-based, columns in runes) -/
def posOf (src : Bytes) (off : Nat) : Pos := posFrom src.length src off ⟨1, 1⟩

/-- A token as dumped by the harness. Offsets/lines/columns are Go `int`s. -/
structure Tok where
  typ : Nat
  s : Int
  sLine : Int
  sCol : Int
  e : Int          -- offset of the LAST byte of the lexeme (`EndPos.ByteOffset`)
  eLine : Int
  eCol : Int
  sgr : List Nat   -- `AnsiStyling()`
deriving DecidableEq, Repr, Inhabited

/-- spans in source order, inside the input, non-empty, pairwise disjoint; `lo` = first free byte -/
def spansOkFrom (n : Nat) : Int → List Tok → Bool
  | _, [] => true
  | lo, t :: ts => decide (lo ≤ t.s ∧ t.s ≤ t.e ∧ t.e < n) && spansOkFrom n (t.e + 1) ts

def spansOk (src : Bytes) (toks : List Tok) : Bool := spansOkFrom src.length 0 toks

def startPosOk (src : Bytes) (t : Tok) : Bool := decide (posOf src t.s.toNat = ⟨t.sLine, t.sCol⟩)
def endPosOk (src : Bytes) (t : Tok) : Bool := decide (posOf src t.e.toNat = ⟨t.eLine, t.eCol⟩)

/-- every reported line/column is the line/column of the reported byte offset -/
def positionsOk (src : Bytes) (toks : List Tok) : Bool :=
  toks.all fun t => startPosOk src t && endPosOk src t

def wellFormed (src : Bytes) (toks : List Tok) : Bool := spansOk src toks && positionsOk src toks

/-- The one deviation the unchanged lexer shows (`tokenWithValue`: `endColumn = column - 1` after
`incrementLine` reset the column): a token of ≥ 2 bytes whose last byte is a line break reports its end
as column 0 of the following line. -/
def endPosNewlineDefect (src : Bytes) (t : Tok) : Bool :=
  decide (t.s < t.e) && src[t.e.toNat]? == some 10 &&
    decide ((⟨t.eLine, t.eCol⟩ : Pos) = ⟨(posOf src t.e.toNat).line + 1, 0⟩)

/-- `positionsOk` up to the known deviation -/
def positionsOkLax (src : Bytes) (toks : List Tok) : Bool :=
  toks.all fun t => startPosOk src t && (endPosOk src t || endPosNewlineDefect src t)

/-! ### Colorize -/

/-- Go `s[a:b]` on a string: panics (here `none`) unless `0 ≤ a ≤ b ≤ len s`. -/
def goSlice (src : Bytes) (a b : Int) : Option Bytes :=
  if 0 ≤ a ∧ a ≤ b ∧ b ≤ src.length then some ((src.drop a.toNat).take (b.toNat - a.toNat)) else none

inductive Seg where
  | plain (bs : Bytes)                       -- `result.WriteString(between)` / `missing`
  | styled (codes : List Nat) (bs : Bytes)   -- `result.WriteString(c.Sprint(lexeme))`
deriving DecidableEq, Repr

/-- The loop of `Colorize`: `prev` is `previousEnd`. `none` = a slice expression panics. -/
def colorizeFrom (src : Bytes) (style : Tok → List Nat) : Int → List Tok → Option (List Seg)
  | prev, [] => (goSlice src prev src.length).map fun missing => [.plain missing]
  | prev, t :: ts =>
    match goSlice src prev t.s, goSlice src t.s (t.e + 1), colorizeFrom src style (t.e + 1) ts with
    | some between, some lexeme, some rest => some (.plain between :: .styled (style t) lexeme :: rest)
    | _, _, _ => none

def colorize (src : Bytes) (toks : List Tok) (style : Tok → List Nat) : Option (List Seg) :=
  colorizeFrom src style 0 toks

/-- decimal digits of `n`, most significant first (`strconv.Itoa` for n ≥ 0) -/
def decDigitsAux : (fuel : Nat) → Nat → Bytes → Bytes
  | 0, n, acc => (48 + n % 10) :: acc
  | fuel + 1, n, acc => if n < 10 then (48 + n) :: acc else decDigitsAux fuel (n / 10) ((48 + n % 10) :: acc)

def decDigits (n : Nat) : Bytes := decDigitsAux n n []

/-- `strings.Join(codes, ";")` -/
def joinCodes : List Nat → Bytes
  | [] => []
  | [c] => decDigits c
  | c :: cs => decDigits c ++ 59 :: joinCodes cs

/-- fatih/color `format()`: `ESC [ codes m`, and `unformat()`: `ESC [ 0 m` -/
def sgrSeq (codes : List Nat) : Bytes := [27, 91] ++ joinCodes codes ++ [109]
def sgrReset : Bytes := [27, 91, 48, 109]

def Seg.render : Seg → Bytes
  | .plain bs => bs
  | .styled codes bs => sgrSeq codes ++ bs ++ sgrReset

def Seg.payload : Seg → Bytes
  | .plain bs => bs
  | .styled _ bs => bs

/-- the bytes `Colorize` returns -/
def render (segs : List Seg) : Bytes := (segs.map Seg.render).flatten
/-- the output with the colour wrappers removed structurally -/
def payload (segs : List Seg) : Bytes := (segs.map Seg.payload).flatten

/-! ### textual ANSI stripping: delete every leftmost `ESC [ (0-9|;)* m` -/

def isParam (b : Nat) : Bool := (48 ≤ b && b ≤ 57) || b = 59

inductive StripSt where
  | normal
  | esc                      -- pending: ESC
  | params (pending : Bytes) -- pending: ESC [ params…
deriving Repr

def stripFrom : StripSt → Bytes → Bytes
  | .normal, [] => []
  | .esc, [] => [27]
  | .params pend, [] => pend
  | .normal, b :: bs => if b = 27 then stripFrom .esc bs else b :: stripFrom .normal bs
  | .esc, b :: bs =>
    if b = 91 then stripFrom (.params [27, 91]) bs
    else if b = 27 then 27 :: stripFrom .esc bs
    else 27 :: b :: stripFrom .normal bs
  | .params pend, b :: bs =>
    if b = 109 then stripFrom .normal bs
    else if isParam b then stripFrom (.params (pend ++ [b])) bs
    else if b = 27 then pend ++ stripFrom .esc bs
    else pend ++ b :: stripFrom .normal bs

def stripAnsi (bs : Bytes) : Bytes := stripFrom .normal bs

/-! ### the lexer's cursor machine -/

structure Cur where
  start : Int
  cursor : Int
  line : Int
  column : Int
  startLine : Int
  startColumn : Int
deriving DecidableEq, Repr, Inhabited

/-- `NewWithMode` -/
def Cur.init : Cur := ⟨0, 0, 1, 1, 1, 1⟩

inductive Op where
  | advance            -- `advanceChar` (any rune; no line bookkeeping)
  | incrementLine
  | backup (n : Nat)   -- `backupChars n` (`backupChar` = `backup 1`)
  | skipByte
  | skipToken
  | emit (typ : Nat)   -- `tokenWithValue`
  | restore (cursor line column : Int)  -- the saved position of a backslash put back (string escapes)
deriving DecidableEq, Repr

/-- `advanceChar`: no-op at end of input -/
def advanceChar (src : Bytes) (c : Cur) : Cur :=
  if c.cursor < src.length then
    { c with cursor := c.cursor + runeWidth (src.drop c.cursor.toNat), column := c.column + 1 }
  else c

/-- `tokenWithValue`: the token and the state after it -/
def emitTok (typ : Nat) (c : Cur) : Tok × Cur :=
  let e := c.cursor - 1
  let tok : Tok :=
    if e = c.start then ⟨typ, c.start, c.startLine, c.startColumn, c.start, c.startLine, c.startColumn, []⟩
    else ⟨typ, c.start, c.startLine, c.startColumn, e, c.line, c.column - 1, []⟩
  (tok, { c with start := c.cursor, startColumn := c.column, startLine := c.line })

def step (src : Bytes) (c : Cur) : Op → Cur × List Tok
  | .advance => (advanceChar src c, [])
  | .incrementLine => ({ c with line := c.line + 1, column := 1 }, [])
  | .backup n => ({ c with cursor := c.cursor - n, column := c.column - n }, [])
  | .skipByte => ({ c with start := c.start + 1, startColumn := c.startColumn + 1 }, [])
  | .skipToken => ({ c with start := c.cursor, startColumn := c.column, startLine := c.line }, [])
  | .emit typ => let (t, c') := emitTok typ c; (c', [t])
  | .restore cu l col => ({ c with cursor := cu, line := l, column := col }, [])

def run (src : Bytes) : Cur → List Op → Cur × List Tok
  | c, [] => (c, [])
  | c, op :: ops =>
    let (c1, t1) := step src c op
    let (c2, t2) := run src c1 ops
    (c2, t1 ++ t2)

end Elk.Lex
