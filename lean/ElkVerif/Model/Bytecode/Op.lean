import ElkVerif.Gen.Opcodes
/-!
# Bytecode: artefacts and the opcode semantic table (C29, C33)

`Func`/`Prog` mirror `vm.BytecodeFunction` (`vm/bytecode_function.go`) as far as the VM's
interpreter loop (`vm/thread.go run`) touches it: instruction bytes, the *kinds* of the values in
the constant pool, catch entries (`vm/catch_entry.go`), upvalue and parameter counts.

The operand **layout** of every opcode is not written here: it is `Elk.Gen.Opcodes.rows`, probed
from the real `DisassembleInstruction`/`OpCode.String` on every run. The **semantic table**
`semOf` below is hand-written from the `case` arms of `Thread.run`, keyed by opcode *name* (so a
renumbering of the opcodes is harmless). `tablesAgree` (proved by `decide` in `Props/C29`) says the
two tables agree on every opcode: same set of names, operand bytes consumed by the VM handler =
operand bytes skipped by the disassembler.
Core Lean only.
-/
namespace Elk.Bytecode

/-- What the abstract machine tracks about one operand-stack slot. `any` is an unknown run-time
value; the others are the constants the compiler's `do … finally` / `break`-through-`finally`
protocol pushes and later branches on (`TRUE`/`FALSE`/`NIL`/`UNDEFINED` flags, jump offsets and
`finally` counters as small ints, `Select` descriptors). -/
inductive AV where
  | any | tru | fls | nil | undef
  | int (n : Int)
  | sel (pops cases : Nat) -- a `*vm.Select` constant with `cases` cases popping `pops` operands in all
  | fn (k : Nat)          -- bytecode function `k` of the program (operand of CLOSURE / EXEC / DEF_METHOD)
deriving DecidableEq, Repr, Inhabited, Hashable

/-- Kind of a value in the constant pool (what the VM handler casts it to). -/
inductive Const where
  | fn (k : Nat)                                -- *vm.BytecodeFunction, index into the program
  | callSite (argc : Nat)                       -- *vm.CallSiteInfo
  | bcSite (argc : Nat) (tail : Bool) (k : Int) -- *vm.BytecodeCallSiteInfo (k = callee, -1 = nil)
  | ntSite (argc : Nat) (params : Int)          -- *vm.NativeCallSiteInfo
  | sym | int (n : Int) | undef | tru | fls | nil
  | select (pops cases : Nat)
  | other
deriving DecidableEq, Repr, Inhabited

/-- `vm.CatchEntry`; `from`/`to` are Go ints (the generator prologue registers the entry
`(-1, -1, bodyStart)` as a marker that covers nothing) -/
structure Catch where
  from_ : Int
  to : Int
  jump : Nat
  fin : Bool
deriving DecidableEq, Repr, Inhabited

structure Func where
  name : String := ""
  code : Array Nat           -- instruction bytes (each < 256)
  consts : Array Const
  catches : List Catch
  upvalues : Nat
  params : Nat
deriving Repr, Inhabited

abbrev Prog := Array Func

/-- operand encodings (`readByte` / `readUint16` sequences of the VM handlers) -/
inductive Opnd where
  | e | u8 | u16 | s8 | s16 | u8u8 | u16u8 | u8u16 | closure   -- `e` = no operand
deriving DecidableEq, Repr, Inhabited

/-- operand bytes; `closure` is variable length -/
def Opnd.bytes : Opnd → Option Nat
  | .e => some 0 | .u8 => some 1 | .u16 => some 2 | .s8 => some 1 | .s16 => some 2
  | .u8u8 => some 2 | .u16u8 => some 3 | .u8u16 => some 3 | .closure => Option.none

inductive CallK where
  | dyn      -- CALL_METHOD8/16: *CallSiteInfo, method looked up at run time
  | dynTco   -- CALL_METHOD_TCO8/16
  | bc       -- CALL_METHOD_BC8/16: *BytecodeCallSiteInfo (tail flag inside)
  | nt       -- CALL_METHOD_NT8/16: *NativeCallSiteInfo
  | callObj  -- CALL8/16
  | next     -- NEXT8/16
deriving DecidableEq, Repr, Inhabited

/-- what a conditional jump tests on the top of the stack -/
inductive Test where
  | falsy | truthy | isNil | notNil | notUndef
deriving DecidableEq, Repr, Inhabited

/-- `some b`: the test is decided (b = the jump is taken) for this abstract value -/
def Test.decide : Test → AV → Option Bool
  | .falsy, .tru => some false | .falsy, .fls => some true | .falsy, .nil => some true
  | .falsy, .int _ => some false
  | .truthy, .tru => some true | .truthy, .int _ => some true | .truthy, .fls => some false
  | .truthy, .nil => some false
  | .isNil, .nil => some true | .isNil, .tru => some false | .isNil, .fls => some false
  | .isNil, .int _ => some false | .isNil, .undef => some false
  | .notNil, .nil => some false | .notNil, .tru => some true | .notNil, .fls => some true
  | .notNil, .int _ => some true | .notNil, .undef => some true
  | .notUndef, .undef => some false | .notUndef, .tru => some true | .notUndef, .fls => some true
  | .notUndef, .nil => some true | .notUndef, .int _ => some true
  | _, _ => none

/-- shapes of the operand stack at the moment an instruction raises: `(drop, push)` = the
instruction has removed `drop` of its operands and left `push` unknown values (e.g. the slot a
returning callee frame collapses to, `restoreLastFrame`) -/
abbrev Thr := List (Nat × Nat)

/-- The instruction classes of `Thread.run`. -/
inductive Act where
  | stack (pops pushes : Nat) (thr : Thr)   -- pops, then pushes unknown values, falls through
  | pushv (v : AV)
  | pushInt                                  -- signed operand pushed as a small Int
  | dup | dup2 | dupSecond | swap | popSkipOne | pop2SkipOne
  | getLocal (fixed : Option Nat) | setLocal (fixed : Option Nat) | boxLocal
  | getUp (fixed : Option Nat) | setUp (fixed : Option Nat) | closeUp (fixed : Option Nat)
  | prepLocals
  | loadValue (fixed : Option Nat)
  | symOp (pops pushes : Nat) (thr : Thr)    -- operand = constant index cast with AsInlineSymbol
  | call (k : CallK)
  | instantiate
  | newColl (base mul : Nat) (thr : Thr)     -- pops base + mul * operand, pushes 1
  | newRegex
  | newRange
  | defNamespace
  | jump | loop
  | condJump (t : Test) (pop : Bool)
  | cmpJump (throws : Bool) (eq : Option Bool)   -- eq = some b: Int equality test, jumps iff (equal = b)
  | forIn
  | ret | retLocal (idx : Nat) | retFinally | jumpToFinally
  | throw | rethrow | must | as_
  | closure
  | generator | promise | yield | stopIteration | await | awaitResult | awaitSync
  | select | execDefer
  | checkAbort
  | invalid                                  -- named opcode without a `case` in `Thread.run`
deriving DecidableEq, Repr, Inhabited

structure Sem where
  opnd : Opnd
  act : Act
deriving DecidableEq, Repr, Inhabited

private def S (p q : Nat) (thr : Thr := []) : Sem := ⟨.e, .stack p q thr⟩
/-- binary operator that may raise (builtin error: operands still there; bytecode operator method
raising: frame collapsed to one slot) -/
private def bin : Sem := ⟨.e, .stack 2 1 [(0, 0), (2, 1)]⟩
private def binNT : Sem := ⟨.e, .stack 2 1 []⟩
private def un : Sem := ⟨.e, .stack 1 1 [(0, 0), (1, 1)]⟩
private def unNT : Sem := ⟨.e, .stack 1 1 []⟩
private def push1 : Sem := ⟨.e, .stack 0 1 []⟩

/-- The semantic table: opcode name ↦ operand encoding and instruction class.
Each row is the corresponding `case bytecode.X:` arm of `Thread.run` (vm/thread.go). The order is
irrelevant: rows are found by name (`semOf`), or by the position hint the probe table carries,
which is checked against the name (`Decode.opTable`, `C29.rowAgrees`). -/
def semTable : List (String × Sem) := [
  ("NOOP", (S 0 0)),
  ("RETURN", ⟨.e, .ret⟩),
  ("LOAD_VALUE_0", ⟨.e, .loadValue (some 0)⟩),
  ("LOAD_VALUE_1", ⟨.e, .loadValue (some 1)⟩),
  ("LOAD_VALUE_2", ⟨.e, .loadValue (some 2)⟩),
  ("LOAD_VALUE_3", ⟨.e, .loadValue (some 3)⟩),
  ("LOAD_VALUE8", ⟨.u8, .loadValue none⟩),
  ("LOAD_VALUE16", ⟨.u16, .loadValue none⟩),
  ("ADD", bin),
  ("ADD_INT", binNT),
  ("ADD_FLOAT", binNT),
  ("SUBTRACT", bin),
  ("SUBTRACT_INT", binNT),
  ("SUBTRACT_FLOAT", binNT),
  ("MULTIPLY", bin),
  ("MULTIPLY_INT", binNT),
  ("MULTIPLY_FLOAT", binNT),
  ("DIVIDE", bin),
  ("DIVIDE_INT", ⟨.e, .stack 2 1 [(2, 0)]⟩),
  ("DIVIDE_FLOAT", binNT),
  ("EXPONENTIATE", bin),
  ("EXPONENTIATE_INT", binNT),
  ("NEGATE", un),
  ("NEGATE_INT", unNT),
  ("NEGATE_FLOAT", unNT),
  ("NOT", unNT),
  ("BITWISE_NOT", un),
  ("TRUE", ⟨.e, .pushv .tru⟩),
  ("FALSE", ⟨.e, .pushv .fls⟩),
  ("NIL", ⟨.e, .pushv .nil⟩),
  ("POP", (S 1 0)),
  ("POP_2", (S 2 0)),
  ("PREP_LOCALS8", ⟨.u8, .prepLocals⟩),
  ("PREP_LOCALS16", ⟨.u16, .prepLocals⟩),
  ("SET_LOCAL_1", ⟨.e, .setLocal (some 1)⟩),
  ("SET_LOCAL_2", ⟨.e, .setLocal (some 2)⟩),
  ("SET_LOCAL_3", ⟨.e, .setLocal (some 3)⟩),
  ("SET_LOCAL_4", ⟨.e, .setLocal (some 4)⟩),
  ("SET_LOCAL8", ⟨.u8, .setLocal none⟩),
  ("SET_LOCAL16", ⟨.u16, .setLocal none⟩),
  ("GET_LOCAL_1", ⟨.e, .getLocal (some 1)⟩),
  ("GET_LOCAL_2", ⟨.e, .getLocal (some 2)⟩),
  ("GET_LOCAL_3", ⟨.e, .getLocal (some 3)⟩),
  ("GET_LOCAL_4", ⟨.e, .getLocal (some 4)⟩),
  ("GET_LOCAL8", ⟨.u8, .getLocal none⟩),
  ("GET_LOCAL16", ⟨.u16, .getLocal none⟩),
  ("BOX_LOCAL8", ⟨.u8u8, .boxLocal⟩),
  ("BOX_LOCAL16", ⟨.u16u8, .boxLocal⟩),
  ("JUMP_UNLESS_LE", ⟨.u16, .cmpJump true none⟩),
  ("JUMP_UNLESS_LT", ⟨.u16, .cmpJump true none⟩),
  ("JUMP_UNLESS_GE", ⟨.u16, .cmpJump true none⟩),
  ("JUMP_UNLESS_GT", ⟨.u16, .cmpJump true none⟩),
  ("JUMP_UNLESS_EQ", ⟨.u16, .cmpJump false none⟩),
  ("JUMP_UNLESS_ILE", ⟨.u16, .cmpJump false none⟩),
  ("JUMP_UNLESS_ILT", ⟨.u16, .cmpJump false none⟩),
  ("JUMP_UNLESS_IGE", ⟨.u16, .cmpJump false none⟩),
  ("JUMP_UNLESS_IGT", ⟨.u16, .cmpJump false none⟩),
  ("JUMP_UNLESS_IEQ", ⟨.u16, .cmpJump false (some false)⟩),
  ("JUMP_UNLESS_NIL", ⟨.u16, .condJump .notNil true⟩),
  ("JUMP_UNLESS_NNP", ⟨.u16, .condJump .notNil false⟩),
  ("JUMP_UNLESS_UNP", ⟨.u16, .condJump .notUndef false⟩),
  ("JUMP_UNLESS_UNDEF", ⟨.u16, .condJump .notUndef true⟩),
  ("JUMP_UNLESS", ⟨.u16, .condJump .falsy true⟩),
  ("JUMP_UNLESS_NP", ⟨.u16, .condJump .falsy false⟩),
  ("JUMP", ⟨.u16, .jump⟩),
  ("JUMP_IF", ⟨.u16, .condJump .truthy true⟩),
  ("JUMP_IF_NP", ⟨.u16, .condJump .truthy false⟩),
  ("JUMP_IF_IEQ", ⟨.u16, .cmpJump false (some true)⟩),
  ("JUMP_IF_EQ", ⟨.u16, .cmpJump false none⟩),
  ("LOOP", ⟨.u16, .loop⟩),
  ("JUMP_IF_NIL", ⟨.u16, .condJump .isNil true⟩),
  ("JUMP_IF_NIL_NP", ⟨.u16, .condJump .isNil false⟩),
  ("RBITSHIFT", bin),
  ("RBITSHIFT_INT", binNT),
  ("LOGIC_RBITSHIFT", bin),
  ("LBITSHIFT", bin),
  ("LBITSHIFT_INT", binNT),
  ("LOGIC_LBITSHIFT", bin),
  ("BITWISE_AND", bin),
  ("BITWISE_AND_INT", binNT),
  ("BITWISE_OR", bin),
  ("BITWISE_OR_INT", binNT),
  ("BITWISE_XOR", bin),
  ("BITWISE_XOR_INT", binNT),
  ("MODULO", bin),
  ("MODULO_INT", ⟨.e, .stack 2 1 [(2, 0)]⟩),
  ("MODULO_FLOAT", binNT),
  ("EQUAL", bin),
  ("EQUAL_INT", binNT),
  ("EQUAL_FLOAT", binNT),
  ("STRICT_EQUAL", binNT),
  ("GREATER", bin),
  ("GREATER_INT", binNT),
  ("GREATER_FLOAT", binNT),
  ("GREATER_EQUAL", bin),
  ("GREATER_EQUAL_I", binNT),
  ("GREATER_EQUAL_F", binNT),
  ("LESS", bin),
  ("LESS_INT", binNT),
  ("LESS_FLOAT", binNT),
  ("LESS_EQUAL", bin),
  ("LESS_EQUAL_INT", binNT),
  ("LESS_EQUAL_FLOAT", binNT),
  ("NOT_EQUAL", bin),
  ("NOT_EQUAL_INT", binNT),
  ("NOT_EQUAL_FLOAT", binNT),
  ("STRICT_NOT_EQUAL", binNT),
  ("INIT_NAMESPACE", (S 2 1 [(2, 1)])),
  ("SELF", ⟨.e, .getLocal (some 0)⟩),
  ("DEF_METHOD", (S 3 1)),
  ("UNDEFINED", ⟨.e, .pushv .undef⟩),
  ("GET_CLASS", unNT),
  ("CALL_METHOD_TCO8", ⟨.u8, .call .dynTco⟩),
  ("CALL_METHOD_TCO16", ⟨.u16, .call .dynTco⟩),
  ("CALL_METHOD8", ⟨.u8, .call .dyn⟩),
  ("CALL_METHOD16", ⟨.u16, .call .dyn⟩),
  ("CALL_METHOD_BC8", ⟨.u8, .call .bc⟩),
  ("CALL_METHOD_BC16", ⟨.u16, .call .bc⟩),
  ("CALL_METHOD_NT8", ⟨.u8, .call .nt⟩),
  ("CALL_METHOD_NT16", ⟨.u16, .call .nt⟩),
  ("CALL8", ⟨.u8, .call .callObj⟩),
  ("CALL16", ⟨.u16, .call .callObj⟩),
  ("INCLUDE", (S 2 0 [(2, 0)])),
  ("GET_SINGLETON", ⟨.e, .stack 1 1 [(1, 0)]⟩),
  ("COMPARE", bin),
  ("DOC_COMMENT", ⟨.e, .invalid⟩),
  ("DEF_GETTER", (S 3 1)),
  ("DEF_SETTER", (S 3 1)),
  ("RETURN_FIRST_ARG", ⟨.e, .retLocal 1⟩),
  ("INSTANTIATE8", ⟨.u8, .instantiate⟩),
  ("INSTANTIATE16", ⟨.u16, .instantiate⟩),
  ("RETURN_SELF", ⟨.e, .retLocal 0⟩),
  ("GET_IVAR_0", push1),
  ("GET_IVAR_1", push1),
  ("GET_IVAR_2", push1),
  ("GET_IVAR8", ⟨.u8, .stack 0 1 []⟩),
  ("GET_IVAR16", ⟨.u16, .stack 0 1 []⟩),
  ("GET_IVAR_NAME16", ⟨.u16, .symOp 0 1 [(0, 0)]⟩),
  ("SET_IVAR_0", (S 1 0)),
  ("SET_IVAR_1", (S 1 0)),
  ("SET_IVAR_2", (S 1 0)),
  ("SET_IVAR8", ⟨.u8, .stack 1 0 []⟩),
  ("SET_IVAR16", ⟨.u16, .stack 1 0 []⟩),
  ("SET_IVAR_NAME16", ⟨.u16, .symOp 1 0 [(1, 0)]⟩),
  ("NEW_ARRAY_TUPLE8", ⟨.u8, .newColl 1 1 []⟩),
  ("NEW_ARRAY_TUPLE16", ⟨.u16, .newColl 1 1 []⟩),
  ("APPEND", ⟨.e, .stack 2 1 [(1, 0)]⟩),
  ("COPY", unNT),
  ("SUBSCRIPT", bin),
  ("SUBSCRIPT_SET", ⟨.e, .stack 3 1 [(2, 0)]⟩),
  ("APPEND_AT", ⟨.e, .stack 3 1 [(2, 0)]⟩),
  ("NEW_ARRAY_LIST8", ⟨.u8, .newColl 2 1 [(0, 0)]⟩),
  ("NEW_ARRAY_LIST16", ⟨.u16, .newColl 2 1 [(0, 0)]⟩),
  ("GET_ITERATOR", unNT),
  ("FOR_IN_BUILTIN", ⟨.u16, .forIn⟩),
  ("FOR_IN", ⟨.u16, .forIn⟩),
  ("NEXT8", ⟨.u8, .call .next⟩),
  ("NEXT16", ⟨.u16, .call .next⟩),
  ("NEW_STRING8", ⟨.u8, .newColl 0 1 [(0, 0)]⟩),
  ("NEW_STRING16", ⟨.u16, .newColl 0 1 [(0, 0)]⟩),
  ("NEW_HASH_MAP8", ⟨.u8, .newColl 2 2 [(0, 0)]⟩),
  ("NEW_HASH_MAP16", ⟨.u16, .newColl 2 2 [(0, 0)]⟩),
  ("MAP_SET", ⟨.e, .stack 3 1 [(2, 0)]⟩),
  ("NEW_HASH_RECORD8", ⟨.u8, .newColl 1 2 [(0, 0)]⟩),
  ("NEW_HASH_RECORD16", ⟨.u16, .newColl 1 2 [(0, 0)]⟩),
  ("LAX_EQUAL", bin),
  ("LAX_NOT_EQUAL", bin),
  ("NEW_REGEX8", ⟨.u8u8, .newRegex⟩),
  ("NEW_REGEX16", ⟨.u8u16, .newRegex⟩),
  ("BITWISE_AND_NOT", bin),
  ("UNARY_PLUS", un),
  ("INCREMENT", un),
  ("INCREMENT_INT", unNT),
  ("DECREMENT", un),
  ("DECREMENT_INT", unNT),
  ("DUP", ⟨.e, .dup⟩),
  ("DUP_2", ⟨.e, .dup2⟩),
  ("DUP_SECOND", ⟨.e, .dupSecond⟩),
  ("POP_2_SKIP_ONE", ⟨.e, .pop2SkipOne⟩),
  ("NEW_SYMBOL8", ⟨.u8, .newColl 0 1 [(0, 0)]⟩),
  ("NEW_SYMBOL16", ⟨.u16, .newColl 0 1 [(0, 0)]⟩),
  ("SWAP", ⟨.e, .swap⟩),
  ("NEW_RANGE", ⟨.u8, .newRange⟩),
  ("SET_SUPERCLASS", (S 2 0)),
  ("AS", ⟨.e, .as_⟩),
  ("MUST", ⟨.e, .must⟩),
  ("INSTANCE_OF", ⟨.e, .stack 2 1 [(2, 0)]⟩),
  ("IS_A", ⟨.e, .stack 2 1 [(2, 0)]⟩),
  ("POP_SKIP_ONE", ⟨.e, .popSkipOne⟩),
  ("INSPECT_STACK", (S 0 0)),
  ("NEW_HASH_SET8", ⟨.u8, .newColl 2 1 [(0, 0)]⟩),
  ("NEW_HASH_SET16", ⟨.u16, .newColl 2 1 [(0, 0)]⟩),
  ("THROW", ⟨.e, .throw⟩),
  ("RETHROW", ⟨.e, .rethrow⟩),
  ("RETURN_FINALLY", ⟨.e, .retFinally⟩),
  ("JUMP_TO_FINALLY", ⟨.e, .jumpToFinally⟩),
  ("CLOSURE", ⟨.closure, .closure⟩),
  ("CLOSED_CLOSURE", ⟨.closure, .closure⟩),
  ("SET_UPVALUE_0", ⟨.e, .setUp (some 0)⟩),
  ("SET_UPVALUE_1", ⟨.e, .setUp (some 1)⟩),
  ("SET_UPVALUE8", ⟨.u8, .setUp none⟩),
  ("SET_UPVALUE16", ⟨.u16, .setUp none⟩),
  ("GET_UPVALUE_0", ⟨.e, .getUp (some 0)⟩),
  ("GET_UPVALUE_1", ⟨.e, .getUp (some 1)⟩),
  ("GET_UPVALUE8", ⟨.u8, .getUp none⟩),
  ("GET_UPVALUE16", ⟨.u16, .getUp none⟩),
  ("CLOSE_UPVALUES_TO_1", ⟨.e, .closeUp (some 1)⟩),
  ("CLOSE_UPVALUES_TO_2", ⟨.e, .closeUp (some 2)⟩),
  ("CLOSE_UPVALUES_TO_3", ⟨.e, .closeUp (some 3)⟩),
  ("CLOSE_UPVALUES_TO8", ⟨.u8, .closeUp none⟩),
  ("CLOSE_UPVALUES_TO16", ⟨.u16, .closeUp none⟩),
  ("DEF_NAMESPACE", ⟨.u8, .defNamespace⟩),
  ("GET_CONST8", ⟨.u8, .symOp 0 1 [(0, 0)]⟩),
  ("GET_CONST16", ⟨.u16, .symOp 0 1 [(0, 0)]⟩),
  ("DEF_CONST", (S 3 0)),
  ("EXEC", (S 1 1 [(1, 1)])),
  ("INT_M1", ⟨.e, .pushv (.int (-1))⟩),
  ("INT_0", ⟨.e, .pushv (.int 0)⟩),
  ("INT_1", ⟨.e, .pushv (.int 1)⟩),
  ("INT_2", ⟨.e, .pushv (.int 2)⟩),
  ("INT_3", ⟨.e, .pushv (.int 3)⟩),
  ("INT_4", ⟨.e, .pushv (.int 4)⟩),
  ("INT_5", ⟨.e, .pushv (.int 5)⟩),
  ("LOAD_INT_8", ⟨.s8, .pushInt⟩),
  ("LOAD_INT_16", ⟨.s16, .pushInt⟩),
  ("LOAD_INT64_8", ⟨.s8, .stack 0 1 []⟩),
  ("LOAD_UINT64_8", ⟨.u8, .stack 0 1 []⟩),
  ("LOAD_INT32_8", ⟨.s8, .stack 0 1 []⟩),
  ("LOAD_UINT32_8", ⟨.u8, .stack 0 1 []⟩),
  ("LOAD_INT16_8", ⟨.s8, .stack 0 1 []⟩),
  ("LOAD_UINT16_8", ⟨.u8, .stack 0 1 []⟩),
  ("LOAD_INT8", ⟨.s8, .stack 0 1 []⟩),
  ("LOAD_UINT8", ⟨.u8, .stack 0 1 []⟩),
  ("LOAD_CHAR_8", ⟨.u8, .stack 0 1 []⟩),
  ("FLOAT_0", push1),
  ("FLOAT_1", push1),
  ("FLOAT_2", push1),
  ("GENERATOR", ⟨.e, .generator⟩),
  ("YIELD", ⟨.e, .yield⟩),
  ("STOP_ITERATION", ⟨.e, .stopIteration⟩),
  ("GO", unNT),
  ("PROMISE", ⟨.e, .promise⟩),
  ("AWAIT", ⟨.e, .await⟩),
  ("AWAIT_RESULT", ⟨.e, .awaitResult⟩),
  ("AWAIT_SYNC", ⟨.e, .awaitSync⟩),
  ("DEF_IVARS", (S 2 0 [(2, 0)])),
  ("BREAKPOINT", unNT),
  ("SELECT", ⟨.e, .select⟩),
  ("CHECK_ABORT", ⟨.e, .checkAbort⟩),
  ("EXEC_DEFER", ⟨.e, .execDefer⟩)
]

def semOf (name : String) : Option Sem := (semTable.find? (fun r => r.1 == name)).map (·.2)

end Elk.Bytecode
