import ElkVerif.Gen.Opcodes
/-!
# Bytecode: artefacts and the opcode semantic table (C29, C33)

`Func`/`Prog` mirror `vm.BytecodeFunction` (`vm/bytecode_function.go`) as far as the VM's
interpreter loop (`vm/thread.go run`) touches it: instruction bytes, the *kinds* of the values in
the constant pool, catch entries (`vm/catch_entry.go`), upvalue and parameter counts.

The operand **layout** of every opcode is not written here: it is `Elk.Gen.Opcodes.rows`, probed
from the real `DisassembleInstruction`/`OpCode.String` on every run. The **semantic table**
`semOf` below is hand-written from the `case` arms of `Thread.run`, keyed by opcode *name* (so a
renumbering of the opcodes is harmless). `tablesAgree` (proved by `decide` in `Props/C29`) says the
two tables agree on every opcode: same set of names, operand bytes consumed by the VM handler =
operand bytes skipped by the disassembler.
Core Lean only.
-/
namespace Elk.Bytecode

/-- What the abstract machine tracks about one operand-stack slot. `any` is an unknown run-time
value; the others are the constants the compiler's `do … finally` / `break`-through-`finally`
protocol pushes and later branches on (`TRUE`/`FALSE`/`NIL`/`UNDEFINED` flags, jump offsets and
`finally` counters as small ints, `Select` descriptors). -/
inductive AV where
  | any | tru | fls | nil | undef
  | int (n : Int)
  | sel (pops : Nat)      -- a `*vm.Select` constant whose cases pop `pops` operands
  | fn (k : Nat)          -- bytecode function `k` of the program (operand of CLOSURE / EXEC / DEF_METHOD)
deriving DecidableEq, Repr, Inhabited, Hashable

/-- Kind of a value in the constant pool (what the VM handler casts it to). -/
inductive Const where
  | fn (k : Nat)                                -- *vm.BytecodeFunction, index into the program
  | callSite (argc : Nat)                       -- *vm.CallSiteInfo
  | bcSite (argc : Nat) (tail : Bool) (k : Int) -- *vm.BytecodeCallSiteInfo (k = callee, -1 = nil)
  | ntSite (argc : Nat) (params : Int)          -- *vm.NativeCallSiteInfo
  | sym | int (n : Int) | undef | tru | fls | nil
  | select (pops : Nat)
  | other
deriving DecidableEq, Repr, Inhabited

/-- `vm.CatchEntry`; `from`/`to` are Go ints (the generator prologue registers the entry
`(-1, -1, bodyStart)` as a marker that covers nothing) -/
structure Catch where
  from_ : Int
  to : Int
  jump : Nat
  fin : Bool
deriving DecidableEq, Repr, Inhabited

structure Func where
  name : String := ""
  code : Array Nat           -- instruction bytes (each < 256)
  consts : Array Const
  catches : List Catch
  upvalues : Nat
  params : Nat
deriving Repr, Inhabited

abbrev Prog := Array Func

/-- operand encodings (`readByte` / `readUint16` sequences of the VM handlers) -/
inductive Opnd where
  | e | u8 | u16 | s8 | s16 | u8u8 | u16u8 | u8u16 | closure   -- `e` = no operand
deriving DecidableEq, Repr, Inhabited

/-- operand bytes; `closure` is variable length -/
def Opnd.bytes : Opnd → Option Nat
  | .e => some 0 | .u8 => some 1 | .u16 => some 2 | .s8 => some 1 | .s16 => some 2
  | .u8u8 => some 2 | .u16u8 => some 3 | .u8u16 => some 3 | .closure => Option.none

inductive CallK where
  | dyn      -- CALL_METHOD8/16: *CallSiteInfo, method looked up at run time
  | dynTco   -- CALL_METHOD_TCO8/16
  | bc       -- CALL_METHOD_BC8/16: *BytecodeCallSiteInfo (tail flag inside)
  | nt       -- CALL_METHOD_NT8/16: *NativeCallSiteInfo
  | callObj  -- CALL8/16
  | next     -- NEXT8/16
deriving DecidableEq, Repr, Inhabited

/-- what a conditional jump tests on the top of the stack -/
inductive Test where
  | falsy | truthy | isNil | notNil | notUndef
deriving DecidableEq, Repr, Inhabited

/-- `some b`: the test is decided (b = the jump is taken) for this abstract value -/
def Test.decide : Test → AV → Option Bool
  | .falsy, .tru => some false | .falsy, .fls => some true | .falsy, .nil => some true
  | .falsy, .int _ => some false
  | .truthy, .tru => some true | .truthy, .int _ => some true | .truthy, .fls => some false
  | .truthy, .nil => some false
  | .isNil, .nil => some true | .isNil, .tru => some false | .isNil, .fls => some false
  | .isNil, .int _ => some false | .isNil, .undef => some false
  | .notNil, .nil => some false | .notNil, .tru => some true | .notNil, .fls => some true
  | .notNil, .int _ => some true | .notNil, .undef => some true
  | .notUndef, .undef => some false | .notUndef, .tru => some true | .notUndef, .fls => some true
  | .notUndef, .nil => some true | .notUndef, .int _ => some true
  | _, _ => none

/-- shapes of the operand stack at the moment an instruction raises: `(drop, push)` = the
instruction has removed `drop` of its operands and left `push` unknown values (e.g. the slot a
returning callee frame collapses to, `restoreLastFrame`) -/
abbrev Thr := List (Nat × Nat)

/-- The instruction classes of `Thread.run`. -/
inductive Act where
  | stack (pops pushes : Nat) (thr : Thr)   -- pops, then pushes unknown values, falls through
  | pushv (v : AV)
  | pushInt                                  -- signed operand pushed as a small Int
  | dup | dup2 | dupSecond | swap | popSkipOne | pop2SkipOne
  | getLocal (fixed : Option Nat) | setLocal (fixed : Option Nat) | boxLocal
  | getUp (fixed : Option Nat) | setUp (fixed : Option Nat) | closeUp (fixed : Option Nat)
  | prepLocals
  | loadValue (fixed : Option Nat)
  | symOp (pops pushes : Nat) (thr : Thr)    -- operand = constant index cast with AsInlineSymbol
  | call (k : CallK)
  | instantiate
  | newColl (base mul : Nat) (thr : Thr)     -- pops base + mul * operand, pushes 1
  | newRegex
  | newRange
  | defNamespace
  | jump | loop
  | condJump (t : Test) (pop : Bool)
  | cmpJump (throws : Bool)
  | forIn
  | ret | retLocal (idx : Nat) | retFinally | jumpToFinally
  | throw | rethrow | must | as_
  | closure
  | generator | promise | yield | stopIteration | await | awaitResult | awaitSync
  | select | execDefer
  | checkAbort
  | invalid                                  -- named opcode without a `case` in `Thread.run`
deriving DecidableEq, Repr, Inhabited

structure Sem where
  opnd : Opnd
  act : Act
deriving DecidableEq, Repr, Inhabited

private def S (p q : Nat) (thr : Thr := []) : Sem := ⟨.e, .stack p q thr⟩
/-- binary operator that may raise (builtin error: operands still there; bytecode operator method
raising: frame collapsed to one slot) -/
private def bin : Sem := ⟨.e, .stack 2 1 [(0, 0), (2, 1)]⟩
private def binNT : Sem := ⟨.e, .stack 2 1 []⟩
private def un : Sem := ⟨.e, .stack 1 1 [(0, 0), (1, 1)]⟩
private def unNT : Sem := ⟨.e, .stack 1 1 []⟩
private def push1 : Sem := ⟨.e, .stack 0 1 []⟩

/-- The semantic table: opcode name ↦ operand encoding and instruction class.
Each row is the corresponding `case bytecode.X:` arm of `Thread.run` (vm/thread.go). -/
def semOf : String → Option Sem
  | "NOOP" => some (S 0 0)
  | "RETURN" => some ⟨.e, .ret⟩
  | "LOAD_VALUE_0" => some ⟨.e, .loadValue (some 0)⟩
  | "LOAD_VALUE_1" => some ⟨.e, .loadValue (some 1)⟩
  | "LOAD_VALUE_2" => some ⟨.e, .loadValue (some 2)⟩
  | "LOAD_VALUE_3" => some ⟨.e, .loadValue (some 3)⟩
  | "LOAD_VALUE8" => some ⟨.u8, .loadValue none⟩
  | "LOAD_VALUE16" => some ⟨.u16, .loadValue none⟩
  | "ADD" => some bin | "ADD_INT" => some binNT | "ADD_FLOAT" => some binNT
  | "SUBTRACT" => some bin | "SUBTRACT_INT" => some binNT | "SUBTRACT_FLOAT" => some binNT
  | "MULTIPLY" => some bin | "MULTIPLY_INT" => some binNT | "MULTIPLY_FLOAT" => some binNT
  | "DIVIDE" => some bin | "DIVIDE_INT" => some ⟨.e, .stack 2 1 [(2, 0)]⟩ | "DIVIDE_FLOAT" => some binNT
  | "EXPONENTIATE" => some bin | "EXPONENTIATE_INT" => some binNT
  | "NEGATE" => some un | "NEGATE_INT" => some unNT | "NEGATE_FLOAT" => some unNT
  | "NOT" => some unNT
  | "BITWISE_NOT" => some un
  | "TRUE" => some ⟨.e, .pushv .tru⟩
  | "FALSE" => some ⟨.e, .pushv .fls⟩
  | "NIL" => some ⟨.e, .pushv .nil⟩
  | "POP" => some (S 1 0)
  | "POP_2" => some (S 2 0)
  | "PREP_LOCALS8" => some ⟨.u8, .prepLocals⟩
  | "PREP_LOCALS16" => some ⟨.u16, .prepLocals⟩
  | "SET_LOCAL_1" => some ⟨.e, .setLocal (some 1)⟩
  | "SET_LOCAL_2" => some ⟨.e, .setLocal (some 2)⟩
  | "SET_LOCAL_3" => some ⟨.e, .setLocal (some 3)⟩
  | "SET_LOCAL_4" => some ⟨.e, .setLocal (some 4)⟩
  | "SET_LOCAL8" => some ⟨.u8, .setLocal none⟩
  | "SET_LOCAL16" => some ⟨.u16, .setLocal none⟩
  | "GET_LOCAL_1" => some ⟨.e, .getLocal (some 1)⟩
  | "GET_LOCAL_2" => some ⟨.e, .getLocal (some 2)⟩
  | "GET_LOCAL_3" => some ⟨.e, .getLocal (some 3)⟩
  | "GET_LOCAL_4" => some ⟨.e, .getLocal (some 4)⟩
  | "GET_LOCAL8" => some ⟨.u8, .getLocal none⟩
  | "GET_LOCAL16" => some ⟨.u16, .getLocal none⟩
  | "BOX_LOCAL8" => some ⟨.u8u8, .boxLocal⟩
  | "BOX_LOCAL16" => some ⟨.u16u8, .boxLocal⟩
  | "JUMP_UNLESS_LE" => some ⟨.u16, .cmpJump true⟩
  | "JUMP_UNLESS_LT" => some ⟨.u16, .cmpJump true⟩
  | "JUMP_UNLESS_GE" => some ⟨.u16, .cmpJump true⟩
  | "JUMP_UNLESS_GT" => some ⟨.u16, .cmpJump true⟩
  | "JUMP_UNLESS_EQ" => some ⟨.u16, .cmpJump false⟩
  | "JUMP_UNLESS_ILE" => some ⟨.u16, .cmpJump false⟩
  | "JUMP_UNLESS_ILT" => some ⟨.u16, .cmpJump false⟩
  | "JUMP_UNLESS_IGE" => some ⟨.u16, .cmpJump false⟩
  | "JUMP_UNLESS_IGT" => some ⟨.u16, .cmpJump false⟩
  | "JUMP_UNLESS_IEQ" => some ⟨.u16, .cmpJump false⟩
  | "JUMP_UNLESS_NIL" => some ⟨.u16, .condJump .notNil true⟩
  | "JUMP_UNLESS_NNP" => some ⟨.u16, .condJump .notNil false⟩
  | "JUMP_UNLESS_UNP" => some ⟨.u16, .condJump .notUndef false⟩
  | "JUMP_UNLESS_UNDEF" => some ⟨.u16, .condJump .notUndef true⟩
  | "JUMP_UNLESS" => some ⟨.u16, .condJump .falsy true⟩
  | "JUMP_UNLESS_NP" => some ⟨.u16, .condJump .falsy false⟩
  | "JUMP" => some ⟨.u16, .jump⟩
  | "JUMP_IF" => some ⟨.u16, .condJump .truthy true⟩
  | "JUMP_IF_NP" => some ⟨.u16, .condJump .truthy false⟩
  | "JUMP_IF_IEQ" => some ⟨.u16, .cmpJump false⟩
  | "JUMP_IF_EQ" => some ⟨.u16, .cmpJump false⟩
  | "LOOP" => some ⟨.u16, .loop⟩
  | "JUMP_IF_NIL" => some ⟨.u16, .condJump .isNil true⟩
  | "JUMP_IF_NIL_NP" => some ⟨.u16, .condJump .isNil false⟩
  | "RBITSHIFT" => some bin | "RBITSHIFT_INT" => some binNT | "LOGIC_RBITSHIFT" => some bin
  | "LBITSHIFT" => some bin | "LBITSHIFT_INT" => some binNT | "LOGIC_LBITSHIFT" => some bin
  | "BITWISE_AND" => some bin | "BITWISE_AND_INT" => some binNT
  | "BITWISE_OR" => some bin | "BITWISE_OR_INT" => some binNT
  | "BITWISE_XOR" => some bin | "BITWISE_XOR_INT" => some binNT
  | "MODULO" => some bin | "MODULO_INT" => some ⟨.e, .stack 2 1 [(2, 0)]⟩ | "MODULO_FLOAT" => some binNT
  | "EQUAL" => some bin | "EQUAL_INT" => some binNT | "EQUAL_FLOAT" => some binNT
  | "STRICT_EQUAL" => some binNT
  | "GREATER" => some bin | "GREATER_INT" => some binNT | "GREATER_FLOAT" => some binNT
  | "GREATER_EQUAL" => some bin | "GREATER_EQUAL_I" => some binNT | "GREATER_EQUAL_F" => some binNT
  | "LESS" => some bin | "LESS_INT" => some binNT | "LESS_FLOAT" => some binNT
  | "LESS_EQUAL" => some bin | "LESS_EQUAL_INT" => some binNT | "LESS_EQUAL_FLOAT" => some binNT
  | "NOT_EQUAL" => some bin | "NOT_EQUAL_INT" => some binNT | "NOT_EQUAL_FLOAT" => some binNT
  | "STRICT_NOT_EQUAL" => some binNT
  | "INIT_NAMESPACE" => some (S 2 1 [(2, 1)])
  | "SELF" => some ⟨.e, .getLocal (some 0)⟩
  | "DEF_METHOD" => some (S 3 1)
  | "UNDEFINED" => some ⟨.e, .pushv .undef⟩
  | "GET_CLASS" => some unNT
  | "CALL_METHOD_TCO8" => some ⟨.u8, .call .dynTco⟩
  | "CALL_METHOD_TCO16" => some ⟨.u16, .call .dynTco⟩
  | "CALL_METHOD8" => some ⟨.u8, .call .dyn⟩
  | "CALL_METHOD16" => some ⟨.u16, .call .dyn⟩
  | "CALL_METHOD_BC8" => some ⟨.u8, .call .bc⟩
  | "CALL_METHOD_BC16" => some ⟨.u16, .call .bc⟩
  | "CALL_METHOD_NT8" => some ⟨.u8, .call .nt⟩
  | "CALL_METHOD_NT16" => some ⟨.u16, .call .nt⟩
  | "CALL8" => some ⟨.u8, .call .callObj⟩
  | "CALL16" => some ⟨.u16, .call .callObj⟩
  | "INCLUDE" => some (S 2 0 [(2, 0)])
  | "GET_SINGLETON" => some ⟨.e, .stack 1 1 [(1, 0)]⟩
  | "COMPARE" => some bin
  | "DOC_COMMENT" => some ⟨.e, .invalid⟩
  | "DEF_GETTER" => some (S 3 1)
  | "DEF_SETTER" => some (S 3 1)
  | "RETURN_FIRST_ARG" => some ⟨.e, .retLocal 1⟩
  | "INSTANTIATE8" => some ⟨.u8, .instantiate⟩
  | "INSTANTIATE16" => some ⟨.u16, .instantiate⟩
  | "RETURN_SELF" => some ⟨.e, .retLocal 0⟩
  | "GET_IVAR_0" => some push1 | "GET_IVAR_1" => some push1 | "GET_IVAR_2" => some push1
  | "GET_IVAR8" => some ⟨.u8, .stack 0 1 []⟩
  | "GET_IVAR16" => some ⟨.u16, .stack 0 1 []⟩
  | "GET_IVAR_NAME16" => some ⟨.u16, .symOp 0 1 [(0, 0)]⟩
  | "SET_IVAR_0" => some (S 1 0) | "SET_IVAR_1" => some (S 1 0) | "SET_IVAR_2" => some (S 1 0)
  | "SET_IVAR8" => some ⟨.u8, .stack 1 0 []⟩
  | "SET_IVAR16" => some ⟨.u16, .stack 1 0 []⟩
  | "SET_IVAR_NAME16" => some ⟨.u16, .symOp 1 0 [(1, 0)]⟩
  | "NEW_ARRAY_TUPLE8" => some ⟨.u8, .newColl 1 1 []⟩
  | "NEW_ARRAY_TUPLE16" => some ⟨.u16, .newColl 1 1 []⟩
  | "APPEND" => some ⟨.e, .stack 2 1 [(1, 0)]⟩
  | "COPY" => some unNT
  | "SUBSCRIPT" => some bin
  | "SUBSCRIPT_SET" => some ⟨.e, .stack 3 1 [(2, 0)]⟩
  | "APPEND_AT" => some ⟨.e, .stack 3 1 [(2, 0)]⟩
  | "NEW_ARRAY_LIST8" => some ⟨.u8, .newColl 2 1 [(0, 0)]⟩
  | "NEW_ARRAY_LIST16" => some ⟨.u16, .newColl 2 1 [(0, 0)]⟩
  | "GET_ITERATOR" => some unNT
  | "FOR_IN_BUILTIN" => some ⟨.u16, .forIn⟩
  | "FOR_IN" => some ⟨.u16, .forIn⟩
  | "NEXT8" => some ⟨.u8, .call .next⟩
  | "NEXT16" => some ⟨.u16, .call .next⟩
  | "NEW_STRING8" => some ⟨.u8, .newColl 0 1 [(0, 0)]⟩
  | "NEW_STRING16" => some ⟨.u16, .newColl 0 1 [(0, 0)]⟩
  | "NEW_HASH_MAP8" => some ⟨.u8, .newColl 2 2 [(0, 0)]⟩
  | "NEW_HASH_MAP16" => some ⟨.u16, .newColl 2 2 [(0, 0)]⟩
  | "MAP_SET" => some ⟨.e, .stack 3 1 [(2, 0)]⟩
  | "NEW_HASH_RECORD8" => some ⟨.u8, .newColl 1 2 [(0, 0)]⟩
  | "NEW_HASH_RECORD16" => some ⟨.u16, .newColl 1 2 [(0, 0)]⟩
  | "LAX_EQUAL" => some bin | "LAX_NOT_EQUAL" => some bin
  | "NEW_REGEX8" => some ⟨.u8u8, .newRegex⟩
  | "NEW_REGEX16" => some ⟨.u8u16, .newRegex⟩
  | "BITWISE_AND_NOT" => some bin
  | "UNARY_PLUS" => some un
  | "INCREMENT" => some un | "INCREMENT_INT" => some unNT
  | "DECREMENT" => some un | "DECREMENT_INT" => some unNT
  | "DUP" => some ⟨.e, .dup⟩
  | "DUP_2" => some ⟨.e, .dup2⟩
  | "DUP_SECOND" => some ⟨.e, .dupSecond⟩
  | "POP_2_SKIP_ONE" => some ⟨.e, .pop2SkipOne⟩
  | "NEW_SYMBOL8" => some ⟨.u8, .newColl 0 1 [(0, 0)]⟩
  | "NEW_SYMBOL16" => some ⟨.u16, .newColl 0 1 [(0, 0)]⟩
  | "SWAP" => some ⟨.e, .swap⟩
  | "NEW_RANGE" => some ⟨.u8, .newRange⟩
  | "SET_SUPERCLASS" => some (S 2 0)
  | "AS" => some ⟨.e, .as_⟩
  | "MUST" => some ⟨.e, .must⟩
  | "INSTANCE_OF" => some ⟨.e, .stack 2 1 [(2, 0)]⟩
  | "IS_A" => some ⟨.e, .stack 2 1 [(2, 0)]⟩
  | "POP_SKIP_ONE" => some ⟨.e, .popSkipOne⟩
  | "INSPECT_STACK" => some (S 0 0)
  | "NEW_HASH_SET8" => some ⟨.u8, .newColl 2 1 [(0, 0)]⟩
  | "NEW_HASH_SET16" => some ⟨.u16, .newColl 2 1 [(0, 0)]⟩
  | "THROW" => some ⟨.e, .throw⟩
  | "RETHROW" => some ⟨.e, .rethrow⟩
  | "RETURN_FINALLY" => some ⟨.e, .retFinally⟩
  | "JUMP_TO_FINALLY" => some ⟨.e, .jumpToFinally⟩
  | "CLOSURE" => some ⟨.closure, .closure⟩
  | "CLOSED_CLOSURE" => some ⟨.closure, .closure⟩
  | "SET_UPVALUE_0" => some ⟨.e, .setUp (some 0)⟩
  | "SET_UPVALUE_1" => some ⟨.e, .setUp (some 1)⟩
  | "SET_UPVALUE8" => some ⟨.u8, .setUp none⟩
  | "SET_UPVALUE16" => some ⟨.u16, .setUp none⟩
  | "GET_UPVALUE_0" => some ⟨.e, .getUp (some 0)⟩
  | "GET_UPVALUE_1" => some ⟨.e, .getUp (some 1)⟩
  | "GET_UPVALUE8" => some ⟨.u8, .getUp none⟩
  | "GET_UPVALUE16" => some ⟨.u16, .getUp none⟩
  | "CLOSE_UPVALUES_TO_1" => some ⟨.e, .closeUp (some 1)⟩
  | "CLOSE_UPVALUES_TO_2" => some ⟨.e, .closeUp (some 2)⟩
  | "CLOSE_UPVALUES_TO_3" => some ⟨.e, .closeUp (some 3)⟩
  | "CLOSE_UPVALUES_TO8" => some ⟨.u8, .closeUp none⟩
  | "CLOSE_UPVALUES_TO16" => some ⟨.u16, .closeUp none⟩
  | "DEF_NAMESPACE" => some ⟨.u8, .defNamespace⟩
  | "GET_CONST8" => some ⟨.u8, .symOp 0 1 [(0, 0)]⟩
  | "GET_CONST16" => some ⟨.u16, .symOp 0 1 [(0, 0)]⟩
  | "DEF_CONST" => some (S 3 0)
  | "EXEC" => some (S 1 1 [(1, 1)])
  | "INT_M1" => some ⟨.e, .pushv (.int (-1))⟩
  | "INT_0" => some ⟨.e, .pushv (.int 0)⟩
  | "INT_1" => some ⟨.e, .pushv (.int 1)⟩
  | "INT_2" => some ⟨.e, .pushv (.int 2)⟩
  | "INT_3" => some ⟨.e, .pushv (.int 3)⟩
  | "INT_4" => some ⟨.e, .pushv (.int 4)⟩
  | "INT_5" => some ⟨.e, .pushv (.int 5)⟩
  | "LOAD_INT_8" => some ⟨.s8, .pushInt⟩
  | "LOAD_INT_16" => some ⟨.s16, .pushInt⟩
  | "LOAD_INT64_8" => some ⟨.s8, .stack 0 1 []⟩
  | "LOAD_UINT64_8" => some ⟨.u8, .stack 0 1 []⟩
  | "LOAD_INT32_8" => some ⟨.s8, .stack 0 1 []⟩
  | "LOAD_UINT32_8" => some ⟨.u8, .stack 0 1 []⟩
  | "LOAD_INT16_8" => some ⟨.s8, .stack 0 1 []⟩
  | "LOAD_UINT16_8" => some ⟨.u8, .stack 0 1 []⟩
  | "LOAD_INT8" => some ⟨.s8, .stack 0 1 []⟩
  | "LOAD_UINT8" => some ⟨.u8, .stack 0 1 []⟩
  | "LOAD_CHAR_8" => some ⟨.u8, .stack 0 1 []⟩
  | "FLOAT_0" => some push1 | "FLOAT_1" => some push1 | "FLOAT_2" => some push1
  | "GENERATOR" => some ⟨.e, .generator⟩
  | "YIELD" => some ⟨.e, .yield⟩
  | "STOP_ITERATION" => some ⟨.e, .stopIteration⟩
  | "GO" => some unNT
  | "PROMISE" => some ⟨.e, .promise⟩
  | "AWAIT" => some ⟨.e, .await⟩
  | "AWAIT_RESULT" => some ⟨.e, .awaitResult⟩
  | "AWAIT_SYNC" => some ⟨.e, .awaitSync⟩
  | "DEF_IVARS" => some (S 2 0 [(2, 0)])
  | "BREAKPOINT" => some unNT
  | "SELECT" => some ⟨.e, .select⟩
  | "CHECK_ABORT" => some ⟨.e, .checkAbort⟩
  | "EXEC_DEFER" => some ⟨.e, .execDefer⟩
  | _ => none

end Elk.Bytecode
