import ElkVerif.Model.Bytecode.Machine
import Std.Data.HashSet
import Std.Data.HashMap
/-!
# Bytecode verifier (C29)

`verifyFunc P f lax : Except Fault Verdict`

1. `checkStructure`: linear sweep of the instruction bytes (= "disassembles without error");
   for **every** instruction (reachable or not) jump targets on instruction boundaries inside the
   function, constant indices in range and of the kind the handler casts to, local and upvalue
   indices inside the frame / the closure; catch entries on boundaries with `from ≤ to`.
2. `explore` (untrusted search): the set of abstract states reachable from the entry state.
3. `checkCert` (trusted, small): that set contains the entry state and is closed under `exec`
   with no `Fault`; `onBoundaries`: every reached pc is an instruction boundary of the sweep.

Soundness (`Proofs/Bytecode`): a passed `checkCert` implies no reachable state of the abstract
machine faults. The verdict also lists the pcs reached with more than one operand-stack depth
(`poly`): the literal "consistent where paths join" clause of the property.
-/
namespace Elk.Bytecode

/-- jump targets that can be read off the instruction alone -/
def staticTargets (i : Instr) : List Nat :=
  let next := i.pc + i.width
  match i.info.sem.act with
  | .jump => [next + i.a]
  | .condJump _ _ => [next + i.a]
  | .cmpJump _ => [next + i.a]
  | .forIn => [next + i.a]
  | .loop => if i.a ≤ next then [next - i.a] else []
  | .generator => [next + 1]
  | .promise => [next + 1]
  | .await => [next + 1]
  | _ => []

/-- static index/kind checks of one instruction (independent of the operand stack) -/
def staticCheck (P : Prog) (f : Func) (i : Instr) : Except Fault Unit :=
  let pc := i.pc
  match i.info.sem.act with
  | .getLocal fixed => chkLocal f pc (fixed.getD i.a)
  | .setLocal fixed => chkLocal f pc (fixed.getD i.a)
  | .boxLocal => chkLocal f pc i.a
  | .retLocal idx => chkLocal f pc idx
  | .getUp fixed => chkUp f pc (fixed.getD i.a)
  | .setUp fixed => chkUp f pc (fixed.getD i.a)
  | .closeUp fixed => if fixed.getD i.a ≤ localCount f then .ok () else .error (.localIndex pc (fixed.getD i.a))
  | .prepLocals => if pc = 0 then .ok () else .error (.prepNotFirst pc)
  | .loadValue fixed =>
    match f.consts[fixed.getD i.a]? with
    | none => .error (.constIndex pc (fixed.getD i.a))
    | some (.fn k) => if k < P.size then .ok () else .error (.constKind pc (fixed.getD i.a))
    | some _ => .ok ()
  | .symOp _ _ _ =>
    match f.consts[i.a]? with
    | none => .error (.constIndex pc i.a)
    | some .sym => .ok ()
    | some _ => .error (.constKind pc i.a)
  | .call k =>
    match f.consts[i.a]? with
    | none => .error (.constIndex pc i.a)
    | some c =>
      match k, c with
      | .dyn, .callSite _ => .ok ()
      | .callObj, .callSite _ => .ok ()
      | .dynTco, .callSite _ => .ok ()
      | .next, .callSite _ => .ok ()
      | .nt, .ntSite _ _ => .ok ()
      | .bc, .bcSite _ _ callee =>
        if 0 ≤ callee ∧ callee.toNat < P.size then .ok () else .error (.constKind pc i.a)
      | _, _ => .error (.constKind pc i.a)
  | .loop => if i.a ≤ pc + i.width then .ok () else .error (.badJump pc 0)
  | .newRange => if i.a < 8 then .ok () else .error (.badOperand pc)
  | .defNamespace => if i.a < 4 then .ok () else .error (.badOperand pc)
  | .closure => chkUps f pc i.ups
  | .invalid => .error (.invalidOp pc)
  | _ => .ok ()

/-- sweep + per-instruction static checks; returns the boundaries -/
def checkInstrs (P : Prog) (f : Func) (bs : List Nat) : List Nat → Except Fault Unit
  | [] => .ok ()
  | pc :: rest =>
    match decodeAt f.code pc with
    | .error e => .error e
    | .ok i =>
      match staticCheck P f i with
      | .error e => .error e
      | .ok _ =>
        match (staticTargets i).find? (fun t => !bs.contains t) with
        | some t => .error (.badJump pc t)
        | none => checkInstrs P f bs rest

/-- a catch entry is well placed: `from ≤ to`, both on instruction boundaries (`to` may be the end of
the code), the handler address on a boundary, and for a `finally` entry also the break/continue
entry `jump + 4`. An entry with `from = to` covers no instruction pointer (`from < ip ≤ to`) and is
inert: only its shape is checked (the generator prologue registers such a marker). -/
def catchOk (f : Func) (bs : List Nat) (c : Catch) : Bool :=
  c.from_ = c.to ||
  (0 ≤ c.from_ && c.from_ < c.to && bs.contains c.from_.toNat
    && (bs.contains c.to.toNat || c.to.toNat = f.code.size) && bs.contains c.jump
    && (!c.fin || bs.contains (c.jump + 4)))

def checkStructure (P : Prog) (f : Func) : Except Fault (List Nat) :=
  match sweep f.code with
  | .error e => .error e
  | .ok bs =>
    match checkInstrs P f bs bs with
    | .error e => .error e
    | .ok _ =>
      match f.catches.find? (fun c => !catchOk f bs c) with
      | some c => .error (.badJump c.from_.toNat c.jump)
      | none => .ok bs

/-- analysis limits of the (untrusted) search -/
def maxStates : Nat := 200000
def maxDepth : Nat := 600

def setAt (l : List (Option Nat)) (k : Nat) (v : Nat) : List (Option Nat) :=
  l.set k (some v)

/-- (lax mode) record the operand-stack depth with which the `do` block of every catch entry that
starts at `s.pc` is entered; a second, different depth is an error -/
def recordEntry (cs : List Catch) (s : St) : (k : Nat) → List (Option Nat) → Except Fault (List (Option Nat))
  | _, [] => .ok []
  | k, h :: rest =>
    match recordEntry cs s (k + 1) rest with
    | .error e => .error e
    | .ok rest' =>
      match cs[k]? with
      | some c =>
        if c.from_ = (s.pc : Int) then
          match h with
          | none => .ok (some s.stk.length :: rest')
          | some d => if d = s.stk.length then .ok (h :: rest') else .error (.handlerDepth s.pc)
        else .ok (h :: rest')
      | none => .ok (h :: rest')

def cfgOf (lax : Bool) (hd : List (Option Nat)) : Cfg :=
  { lax := lax, hd := hd.map (fun o => o.getD 0) }

/-- Untrusted worklist search for the reachable abstract states. -/
def explore (P : Prog) (f : Func) (lax : Bool) :
    (fuel : Nat) → (work : List St) → (seen : Std.HashSet St) → (acc : List St) → (hd : List (Option Nat)) →
    Except Fault (List St × List (Option Nat))
  | 0, w, _, _, _ => .error (.tooDeep (w.head?.map (·.pc) |>.getD 0))
  | _ + 1, [], _, acc, hd => .ok (acc, hd)
  | fuel + 1, s :: work, seen, acc, hd =>
    if seen.contains s then explore P f lax fuel work seen acc hd
    else if s.stk.length > maxDepth || seen.size > maxStates then .error (.tooDeep s.pc)
    else
      match (if lax then recordEntry f.catches s 0 hd else .ok hd) with
      | .error e => .error e
      | .ok hd' =>
        match exec P f (cfgOf lax hd') s with
        | .error e => .error e
        | .ok l => explore P f lax fuel (l ++ work) (seen.insert s) (s :: acc) hd'

/-- Trusted certificate check: `cert` contains the entry state and is closed under `exec`. -/
def checkCert (P : Prog) (f : Func) (cfg : Cfg) (cert : List St) : Bool :=
  let idx := Std.HashSet.ofList cert
  idx.contains St.entry &&
  cert.all fun s =>
    match exec P f cfg s with
    | .ok l => l.all fun s' => idx.contains s'
    | .error _ => false

/-- every reached pc is an instruction boundary of the linear sweep -/
def onBoundaries (bs : List Nat) (cert : List St) : Bool :=
  let idx := Std.HashSet.ofList bs
  cert.all fun s => idx.contains s.pc

/-- (lax) the depth assumed for a handler is the depth every state at the `do` entry has -/
def hdConsistent (f : Func) (cfg : Cfg) (cert : List St) : Bool :=
  cert.all fun s =>
    (List.range f.catches.length).all fun k =>
      match f.catches[k]?, cfg.hd[k]? with
      | some c, some h => c.from_ ≠ (s.pc : Int) || s.stk.length = h
      | _, _ => true

structure Verdict where
  states : Nat
  maxDepth : Nat
  poly : List Nat      -- pcs reached with more than one operand-stack depth (sorted, distinct)
  cert : List St
deriving Repr, Inhabited

def depthTable (cert : List St) : Std.HashMap Nat Nat × List Nat :=
  cert.foldl
    (fun (acc : Std.HashMap Nat Nat × List Nat) s =>
      match acc.1[s.pc]? with
      | none => (acc.1.insert s.pc s.stk.length, acc.2)
      | some d => if d = s.stk.length || acc.2.contains s.pc then acc else (acc.1, s.pc :: acc.2))
    (({} : Std.HashMap Nat Nat), [])

def insertSorted (x : Nat) : List Nat → List Nat
  | [] => [x]
  | y :: r => if x ≤ y then x :: y :: r else y :: insertSorted x r

def sortNat (l : List Nat) : List Nat := l.foldr insertSorted []

def verifyFunc (P : Prog) (f : Func) (lax : Bool) : Except Fault Verdict :=
  match checkStructure P f with
  | .error e => .error e
  | .ok bs =>
      match explore P f lax (4 * maxStates) [St.entry] {} [] (f.catches.map fun _ => none) with
      | .error e => .error e
      | .ok (cert, hd) =>
        let cfg := cfgOf lax hd
        if checkCert P f cfg cert && onBoundaries bs cert && (!lax || hdConsistent f cfg cert) then
          .ok ⟨cert.length, cert.foldl (fun m s => max m s.stk.length) 0, sortNat (depthTable cert).2, cert⟩
        else .error .certRejected

end Elk.Bytecode
