import ElkVerif.Model.Bytecode.Machine
import Std.Data.HashSet
import Std.Data.HashMap
/-!
# Bytecode verifier (C29)

`verifyFunc P f lax : Except Fault Verdict`

1. `checkStructure`: linear sweep of the instruction bytes (= "disassembles without error");
   for **every** instruction (reachable or not) jump targets on instruction boundaries inside the
   function, constant indices in range and of the kind the handler casts to, local and upvalue
   indices inside the frame / the closure; catch entries on boundaries with `from ≤ to`.
2. `explore` (untrusted search): the set of abstract states reachable from the entry state.
3. `checkCert` (trusted, small): that set contains the entry state and is closed under `exec`
   with no `Fault`; `onBoundaries`: every reached pc is an instruction boundary of the sweep.

Soundness (`Proofs/Bytecode`): a passed `checkCert` implies no reachable state of the abstract
machine faults. The verdict also lists the pcs reached with more than one operand-stack depth
(`poly`): the literal "consistent where paths join" clause of the property.
-/
namespace Elk.Bytecode

/-- jump targets that can be read off the instruction alone -/
def staticTargets (i : Instr) : List Nat :=
  let next := i.pc + i.width
  match i.info.sem.act with
  | .jump => [next + i.a]
  | .condJump _ _ => [next + i.a]
  | .cmpJump _ _ => [next + i.a]
  | .forIn => [next + i.a]
  | .loop => if i.a ≤ next then [next - i.a] else []
  | .generator => [next + 1]
  | .promise => [next + 1]
  | .await => [next + 1]
  | _ => []

/-- static index/kind checks of one instruction (independent of the operand stack) -/
def staticCheck (P : Prog) (f : Func) (i : Instr) : Except Fault Unit :=
  let pc := i.pc
  match i.info.sem.act with
  | .getLocal fixed => chkLocal f pc (fixed.getD i.a)
  | .setLocal fixed => chkLocal f pc (fixed.getD i.a)
  | .boxLocal => chkLocal f pc i.a
  | .retLocal idx => chkLocal f pc idx
  | .getUp fixed => chkUp f pc (fixed.getD i.a)
  | .setUp fixed => chkUp f pc (fixed.getD i.a)
  | .closeUp fixed => if fixed.getD i.a ≤ localCount f then .ok () else .error (.localIndex pc (fixed.getD i.a))
  | .prepLocals => if pc = 0 then .ok () else .error (.prepNotFirst pc)
  | .loadValue fixed =>
    match f.consts[fixed.getD i.a]? with
    | none => .error (.constIndex pc (fixed.getD i.a))
    | some (.fn k) => if k < P.size then .ok () else .error (.constKind pc (fixed.getD i.a))
    | some _ => .ok ()
  | .symOp _ _ _ =>
    match f.consts[i.a]? with
    | none => .error (.constIndex pc i.a)
    | some .sym => .ok ()
    | some _ => .error (.constKind pc i.a)
  | .call k =>
    match f.consts[i.a]? with
    | none => .error (.constIndex pc i.a)
    | some c =>
      match k, c with
      | .dyn, .callSite _ => .ok ()
      | .callObj, .callSite _ => .ok ()
      | .dynTco, .callSite _ => .ok ()
      | .next, .callSite _ => .ok ()
      | .nt, .ntSite _ _ => .ok ()
      | .bc, .bcSite _ _ callee =>
        if 0 ≤ callee ∧ callee.toNat < P.size then .ok () else .error (.constKind pc i.a)
      | _, _ => .error (.constKind pc i.a)
  | .loop => if i.a ≤ pc + i.width then .ok () else .error (.badJump pc 0)
  | .newRange => if i.a < 8 then .ok () else .error (.badOperand pc)
  | .defNamespace => if i.a < 4 then .ok () else .error (.badOperand pc)
  | .closure => chkUps f pc i.ups
  | .invalid => .error (.invalidOp pc)
  | _ => .ok ()

/-- sweep + per-instruction static checks; returns the boundaries -/
def checkInstrs (P : Prog) (f : Func) (bs : List Nat) : List Nat → Except Fault Unit
  | [] => .ok ()
  | pc :: rest =>
    match decodeAt f.code pc with
    | .error e => .error e
    | .ok i =>
      match staticCheck P f i with
      | .error e => .error e
      | .ok _ =>
        match (staticTargets i).find? (fun t => !bs.contains t) with
        | some t => .error (.badJump pc t)
        | none => checkInstrs P f bs rest

/-- a catch entry is well placed: `from ≤ to`, both on instruction boundaries (`to` may be the end of
the code), the handler address on a boundary, and for a `finally` entry also the break/continue
entry `jump + 4`. An entry with `from = to` covers no instruction pointer (`from < ip ≤ to`) and is
inert: only its shape is checked (the generator prologue registers such a marker). -/
def catchOk (f : Func) (bs : List Nat) (c : Catch) : Bool :=
  c.from_ = c.to ||
  (0 ≤ c.from_ && c.from_ < c.to && bs.contains c.from_.toNat
    && (bs.contains c.to.toNat || c.to.toNat = f.code.size) && bs.contains c.jump
    && (!c.fin || bs.contains (c.jump + 4)))

def checkStructure (P : Prog) (f : Func) : Except Fault (List Nat) :=
  match sweep f.code with
  | .error e => .error e
  | .ok bs =>
    match checkInstrs P f bs bs with
    | .error e => .error e
    | .ok _ =>
      match f.catches.find? (fun c => !catchOk f bs c) with
      | some c => .error (.badJump c.from_.toNat c.jump)
      | none => .ok bs

/-- analysis limits of the (untrusted) search -/
def maxStates : Nat := 60000
/-- operand-stack depth at which the search gives up: large for the lax machine (a literal with a
thousand dynamic elements is legitimate), small for the strict machine, whose leaking loops
(D16) would otherwise be unrolled to the limit -/
def maxDepth (lax : Bool) : Nat := if lax then 1100 else 96

/-- bookkeeping of the untrusted search: first depth seen per pc and the first edge that reaches a
pc with another depth (diagnosis of an inconsistent join) -/
structure Diag where
  depthAt : Std.HashMap Nat Nat := {}
  conflict : Option (Nat × Nat) := none

def Diag.note (d : Diag) (src : Nat) (l : List St) : Diag :=
  l.foldl (fun d s' =>
    match d.depthAt[s'.pc]? with
    | none => { d with depthAt := d.depthAt.insert s'.pc s'.stk.length }
    | some k => if k = s'.stk.length || d.conflict.isSome then d else { d with conflict := some (src, s'.pc) }) d

/-- Untrusted worklist search for the reachable abstract states. -/
def explore (P : Prog) (f : Func) (cfg : Cfg) :
    (fuel : Nat) → (work : List St) → (seen : Std.HashSet St) → (acc : List St) → Diag →
    Except (Fault × Diag) (List St × Diag)
  | 0, w, _, _, dg => .error (.tooDeep (w.head?.map (·.pc) |>.getD 0), dg)
  | _ + 1, [], _, acc, dg => .ok (acc, dg)
  | fuel + 1, s :: work, seen, acc, dg =>
    if seen.contains s then explore P f cfg fuel work seen acc dg
    else if s.stk.length > maxDepth cfg.lax || seen.size > maxStates then .error (.tooDeep s.pc, dg)
    else
      match exec P f cfg s with
      | .error e => .error (e, dg)
      | .ok l => explore P f cfg fuel (l ++ work) (seen.insert s) (s :: acc) (dg.note s.pc l)

/-- Trusted certificate check: `cert` contains the entry state and is closed under `exec`. -/
def checkCert (P : Prog) (f : Func) (cfg : Cfg) (cert : List St) : Bool :=
  let idx := Std.HashSet.ofList cert
  idx.contains (St.entry f cfg) &&
  cert.all fun s =>
    match exec P f cfg s with
    | .ok l => l.all fun s' => idx.contains s'
    | .error _ => false

/-- every reached pc is an instruction boundary of the linear sweep -/
def onBoundaries (bs : List Nat) (cert : List St) : Bool :=
  let idx := Std.HashSet.ofList bs
  cert.all fun s => idx.contains s.pc

structure Verdict where
  states : Nat
  maxDepth : Nat
  poly : List Nat      -- pcs reached with more than one operand-stack depth (sorted, distinct)
  cert : List St
  conflict : Option (Nat × Nat) := none   -- diagnosis: first edge (from pc, to pc) arriving with another depth
deriving Repr, Inhabited

def depthTable (cert : List St) : Std.HashMap Nat Nat × List Nat :=
  cert.foldl
    (fun (acc : Std.HashMap Nat Nat × List Nat) s =>
      match acc.1[s.pc]? with
      | none => (acc.1.insert s.pc s.stk.length, acc.2)
      | some d => if d = s.stk.length || acc.2.contains s.pc then acc else (acc.1, s.pc :: acc.2))
    (({} : Std.HashMap Nat Nat), [])

def insertSorted (x : Nat) : List Nat → List Nat
  | [] => [x]
  | y :: r => if x ≤ y then x :: y :: r else y :: insertSorted x r

def sortNat (l : List Nat) : List Nat := l.foldr insertSorted []

/-- a fault together with the diagnosis gathered up to it -/
structure Reject where
  fault : Fault
  conflict : Option (Nat × Nat) := none
deriving Repr, Inhabited

def verifyFuncD (P : Prog) (f : Func) (lax : Bool) : Except Reject Verdict :=
  let cfg : Cfg := { lax := lax }
  match checkStructure P f with
  | .error e => .error ⟨e, none⟩
  | .ok bs =>
      match explore P f cfg (4 * maxStates) [St.entry f cfg] {} [] {} with
      | .error (e, dg) => .error ⟨e, dg.conflict⟩
      | .ok (cert, dg) =>
        if checkCert P f cfg cert && onBoundaries bs cert then
          .ok ⟨cert.length, cert.foldl (fun m s => max m s.stk.length) 0, sortNat (depthTable cert).2, cert, dg.conflict⟩
        else .error ⟨.certRejected, dg.conflict⟩

def verifyFunc (P : Prog) (f : Func) (lax : Bool) : Except Fault Verdict :=
  match verifyFuncD P f lax with
  | .ok v => .ok v
  | .error r => .error r.fault

end Elk.Bytecode
