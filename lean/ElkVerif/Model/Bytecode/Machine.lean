import ElkVerif.Model.Bytecode.Decode
/-!
# Abstract machine over the opcode table (C29)

One activation of one bytecode function, executed over *kinds* of values (`AV`). A state is a
program counter and the operand stack above the frame's locals (head of the list = top of stack).
`exec` performs one instruction the way the corresponding `case` of `Thread.run` does, but
 * every read (instruction bytes, `Values[i]`, local slot `fp+i`, `upvalues[i]`, operands popped
   from the stack) is checked and an out-of-range read is a `Fault`;
 * a branch on an unknown value goes both ways; a branch on a known flag goes the way the VM goes;
 * a call is one step: the callee runs in its own activation (verified separately) and leaves one
   value (`restoreLastFrame`); a raise inside it re-enters this activation at the covering handler.
`exec` returns all successor states. `Reachable` is the closure from the entry state `(0, [])`.

`Cfg.lax = false` is the VM as it is: a handler is entered with whatever the raising instruction
left on the operand stack plus the stack trace and the error (`rethrow` does not truncate: D16).
`Cfg.lax = true` is the VM as the compiler assumes it: the stack is cut back to the depth it had
when control entered the protected range of the catch entry (`St.marks`, one mark per catch entry,
set on entering `[from, to)`, dropped on leaving it) before the two values are pushed.
-/
namespace Elk.Bytecode

structure St where
  pc : Nat
  stk : List AV
  /-- (lax machine only) per catch entry: operand-stack depth at the moment control entered its
  protected range, `none` while outside the range; `[]` in the strict machine -/
  marks : List (Option Nat) := []
deriving DecidableEq, Repr, Inhabited, Hashable

structure Cfg where
  lax : Bool := false
deriving Repr, Inhabited

/-- operand of `PREP_LOCALS` at offset 0 (`prepLocals` inserts it there), 0 if absent -/
def prepCount (f : Func) : Nat :=
  match decodeAt f.code 0 with
  | .ok i => if i.info.sem.act = .prepLocals then i.a else 0
  | .error _ => 0

/-- slots of the frame that hold `self`, the parameters and the declared locals
(`localCount = parameterCount + 1`, then `opPrepLocals`) -/
def localCount (f : Func) : Nat := f.params + 1 + prepCount f

def Catch.covers (c : Catch) (ip : Nat) : Bool := c.from_ < (ip : Int) && (ip : Int) ≤ c.to

/-- `rethrow`: first non-`finally` entry covering `ip`, with its index -/
def findCatchFrom (ip : Nat) : List Catch → Nat → Option (Nat × Catch)
  | [], _ => none
  | c :: rest, k => if !c.fin && c.covers ip then some (k, c) else findCatchFrom ip rest (k + 1)

def findCatch (f : Func) (ip : Nat) : Option (Nat × Catch) := findCatchFrom ip f.catches 0

/-- `findFinallyCatchEntry` -/
def findFinally (f : Func) (ip : Nat) : Option Catch :=
  f.catches.find? (fun c => c.fin && c.covers ip)

def need (pc n : Nat) (stk : List AV) : Except Fault Unit :=
  if n ≤ stk.length then .ok () else .error (.underflow pc n stk.length)

def anys (n : Nat) : List AV := List.replicate n .any

def avOfConst : Const → AV
  | .fn k => .fn k
  | .int n => .int n
  | .undef => .undef
  | .tru => .tru
  | .fls => .fls
  | .nil => .nil
  | .select n c => .sel n c
  | _ => .any

/-- handler states for an instruction raising at instruction pointer `ip` with the operand stack
`stk`, once for every shape `(drop, push)` the instruction can raise in -/
def throwTo (f : Func) (cfg : Cfg) (marks : List (Option Nat)) (pc ip : Nat) (stk : List AV) : Thr → Except Fault (List St)
  | [] => .ok []
  | (d, p) :: rest =>
    match throwTo f cfg marks pc ip stk rest with
    | .error e => .error e
    | .ok l =>
      match findCatch f ip with
      | none => .ok l                       -- leaves this activation
      | some (k, c) =>
        let base := anys p ++ stk.drop d
        if cfg.lax then
          match marks[k]? with
          | none => .error (.handlerDepth pc)
          | some none => .error (.handlerDepth pc)
          | some (some h) =>
            if h ≤ base.length then .ok (⟨c.jump, .any :: .any :: base.drop (base.length - h), []⟩ :: l)
            else .error (.handlerDepth pc)
        else .ok (⟨c.jump, .any :: .any :: base, []⟩ :: l)

def chkLocal (f : Func) (pc idx : Nat) : Except Fault Unit :=
  if idx < localCount f then .ok () else .error (.localIndex pc idx)

def chkUp (f : Func) (pc idx : Nat) : Except Fault Unit :=
  if idx < f.upvalues then .ok () else .error (.upvalueIndex pc idx)

def chkTarget (f : Func) (pc t : Nat) : Except Fault Unit :=
  if t < f.code.size then .ok () else .error (.badJump pc t)

/-- descriptors of `CLOSURE`: a captured local must be a slot of this frame, a captured upvalue one of this closure's -/
def chkUps (f : Func) (pc : Nat) : List (Bool × Nat) → Except Fault Unit
  | [] => .ok ()
  | (isLocal, idx) :: rest =>
    match (if isLocal then chkLocal f pc idx else chkUp f pc idx) with
    | .error e => .error e
    | .ok _ => chkUps f pc rest

/-- pops `p` (checked), pushes `q` unknown values, falls through to `next`; plus the raise edges -/
def stackStep (f : Func) (cfg : Cfg) (marks : List (Option Nat)) (pc next : Nat) (stk : List AV) (p q : Nat) (thr : Thr) :
    Except Fault (List St) :=
  match need pc p stk with
  | .error e => .error e
  | .ok _ =>
    match throwTo f cfg marks pc next stk thr with
    | .error e => .error e
    | .ok t => .ok (⟨next, anys q ++ stk.drop p, []⟩ :: t)

/-- a call that pops `argc + 1`, continues at `next` with the result when `ft`, and may raise -/
def callStep (f : Func) (cfg : Cfg) (marks : List (Option Nat)) (pc next : Nat) (stk : List AV) (argc : Nat) (ft : Bool) (thr : Thr) :
    Except Fault (List St) :=
  match need pc (argc + 1) stk with
  | .error e => .error e
  | .ok _ =>
    match throwTo f cfg marks pc next stk thr with
    | .error e => .error e
    | .ok t => .ok (if ft then ⟨next, .any :: stk.drop (argc + 1), []⟩ :: t else t)

/-- One instruction; the successors carry no marks yet (`exec` adds them).
`P` is the program the function belongs to (callee / closure body lookups). -/
def execRaw (P : Prog) (f : Func) (cfg : Cfg) (s : St) : Except Fault (List St) :=
  match decodeAt f.code s.pc with
  | .error e => .error e
  | .ok i =>
    let pc := s.pc
    let next := pc + i.width
    let stk := s.stk
    let marks := s.marks
    match i.info.sem.act with
    | .stack p q thr => stackStep f cfg marks pc next stk p q thr
    | .checkAbort => stackStep f cfg marks pc next stk 0 0 [(0, 0)]
    | .pushv v => .ok [⟨next, v :: stk, []⟩]
    | .pushInt => .ok [⟨next, .int i.sa :: stk, []⟩]
    | .dup =>
      match stk with
      | a :: r => .ok [⟨next, a :: a :: r, []⟩]
      | _ => .error (.underflow pc 1 stk.length)
    | .dup2 =>
      match stk with
      | a :: b :: r => .ok [⟨next, a :: b :: a :: b :: r, []⟩]
      | _ => .error (.underflow pc 2 stk.length)
    | .dupSecond =>
      match stk with
      | a :: b :: r => .ok [⟨next, b :: a :: b :: r, []⟩]
      | _ => .error (.underflow pc 2 stk.length)
    | .swap =>
      match stk with
      | a :: b :: r => .ok [⟨next, b :: a :: r, []⟩]
      | _ => .error (.underflow pc 2 stk.length)
    | .popSkipOne =>
      match stk with
      | a :: _ :: r => .ok [⟨next, a :: r, []⟩]
      | _ => .error (.underflow pc 2 stk.length)
    | .pop2SkipOne =>
      match stk with
      | a :: _ :: _ :: r => .ok [⟨next, a :: r, []⟩]
      | _ => .error (.underflow pc 3 stk.length)
    | .getLocal fixed =>
      match chkLocal f pc (fixed.getD i.a) with
      | .error e => .error e
      | .ok _ => .ok [⟨next, .any :: stk, []⟩]
    | .setLocal fixed =>
      match chkLocal f pc (fixed.getD i.a), stk with
      | .error e, _ => .error e
      | .ok _, _ :: r => .ok [⟨next, r, []⟩]
      | .ok _, [] => .error (.underflow pc 1 0)
    | .boxLocal =>
      match chkLocal f pc i.a with
      | .error e => .error e
      | .ok _ => .ok [⟨next, .any :: stk, []⟩]
    | .getUp fixed =>
      match chkUp f pc (fixed.getD i.a) with
      | .error e => .error e
      | .ok _ => .ok [⟨next, .any :: stk, []⟩]
    | .setUp fixed =>
      match chkUp f pc (fixed.getD i.a), stk with
      | .error e, _ => .error e
      | .ok _, _ :: r => .ok [⟨next, r, []⟩]
      | .ok _, [] => .error (.underflow pc 1 0)
    | .closeUp fixed =>
      if fixed.getD i.a ≤ localCount f then .ok [⟨next, stk, []⟩] else .error (.localIndex pc (fixed.getD i.a))
    | .prepLocals => if pc = 0 then .ok [⟨next, stk, []⟩] else .error (.prepNotFirst pc)
    | .loadValue fixed =>
      match f.consts[fixed.getD i.a]? with
      | none => .error (.constIndex pc (fixed.getD i.a))
      | some c => .ok [⟨next, avOfConst c :: stk, []⟩]
    | .symOp p q thr =>
      match f.consts[i.a]? with
      | none => .error (.constIndex pc i.a)
      | some .sym => stackStep f cfg marks pc next stk p q thr
      | some _ => .error (.constKind pc i.a)
    | .call k =>
      match f.consts[i.a]? with
      | none => .error (.constIndex pc i.a)
      | some c =>
        match k, c with
        | .dyn, .callSite argc => callStep f cfg marks pc next stk argc true [(argc + 1, 0), (argc + 1, 1)]
        | .callObj, .callSite argc => callStep f cfg marks pc next stk argc true [(argc + 1, 0), (argc + 1, 1)]
        | .dynTco, .callSite argc => callStep f cfg marks pc next stk argc true [(argc + 1, 0)]
        | .bc, .bcSite argc tail callee =>
          if 0 ≤ callee ∧ callee.toNat < P.size then
            if tail then callStep f cfg marks pc next stk argc false []
            else callStep f cfg marks pc next stk argc true [(argc + 1, 1)]
          else .error (.constKind pc i.a)
        | .nt, .ntSite argc _ => callStep f cfg marks pc next stk argc true [(argc + 1, 0)]
        | .next, .callSite _ => stackStep f cfg marks pc next stk 1 1 [(0, 0)]
        | _, _ => .error (.constKind pc i.a)
    | .instantiate => callStep f cfg marks pc next stk i.a true [(i.a + 1, 0), (i.a + 1, 1)]
    | .newColl base mul thr => stackStep f cfg marks pc next stk (base + mul * i.a) 1 thr
    | .newRegex => stackStep f cfg marks pc next stk i.b 1 [(0, 0)]
    | .newRange =>
      if i.a < 4 then stackStep f cfg marks pc next stk 2 1 []
      else if i.a < 8 then stackStep f cfg marks pc next stk 1 1 []
      else .error (.badOperand pc)
    | .defNamespace =>
      if i.a < 4 then stackStep f cfg marks pc next stk 2 0 [] else .error (.badOperand pc)
    | .jump =>
      match chkTarget f pc (next + i.a) with
      | .error e => .error e
      | .ok _ => .ok [⟨next + i.a, stk, []⟩]
    | .loop =>
      if i.a ≤ next then .ok [⟨next - i.a, stk, []⟩] else .error (.badJump pc 0)
    | .condJump t pop =>
      match stk with
      | [] => .error (.underflow pc 1 0)
      | top :: r =>
        match chkTarget f pc (next + i.a) with
        | .error e => .error e
        | .ok _ =>
          let after := if pop then r else stk
          match t.decide top with
          | some true => .ok [⟨next + i.a, after, []⟩]
          | some false => .ok [⟨next, after, []⟩]
          | none => .ok [⟨next, after, []⟩, ⟨next + i.a, after, []⟩]
    | .cmpJump throws eq =>
      match need pc 2 stk, chkTarget f pc (next + i.a) with
      | .error e, _ => .error e
      | _, .error e => .error e
      | .ok _, .ok _ =>
        match throwTo f cfg marks pc (pc + 1) stk (if throws then [(2, 0)] else []) with
        | .error e => .error e
        | .ok t =>
          match eq, stk with
          | some b, .int x :: .int y :: r =>
            -- both operands known small ints: the VM's `StrictEqualBool` is decided
            if (x == y) == b then .ok (⟨next + i.a, r, []⟩ :: t) else .ok (⟨next, r, []⟩ :: t)
          | _, _ => .ok (⟨next, stk.drop 2, []⟩ :: ⟨next + i.a, stk.drop 2, []⟩ :: t)
    | .forIn =>
      match stk, chkTarget f pc (next + i.a) with
      | [], _ => .error (.underflow pc 1 0)
      | _, .error e => .error e
      | _ :: r, .ok _ => .ok [⟨next, .any :: r, []⟩, ⟨next + i.a, r, []⟩]
    | .ret =>
      match need pc 1 stk with
      | .error e => .error e
      | .ok _ => .ok []
    | .retLocal idx =>
      match chkLocal f pc idx with
      | .error e => .error e
      | .ok _ => .ok []
    | .retFinally =>
      match need pc 1 stk with
      | .error e => .error e
      | .ok _ =>
        match findFinally f next with
        | some c => .ok [⟨c.jump, stk, []⟩]
        | none => .ok []
    | .jumpToFinally =>
      match stk with
      | .int c :: .int off :: r =>
        if c > 0 then
          match findFinally f next with
          | some e => .ok [⟨e.jump + 4, .int (c - 1) :: .int off :: r, []⟩]
          | none => .error (.noFinally pc)
        else if 0 ≤ off ∧ off.toNat < f.code.size then .ok [⟨off.toNat, r, []⟩]
        else .error (.badJump pc off.toNat)
      | _ => .error (.dynJump pc)
    | .throw =>
      match need pc 1 stk with
      | .error e => .error e
      | .ok _ => throwTo f cfg marks pc next stk [(1, 0)]
    | .rethrow =>
      match need pc 2 stk with
      | .error e => .error e
      | .ok _ => throwTo f cfg marks pc next stk [(2, 0)]
    | .must =>
      match need pc 1 stk with
      | .error e => .error e
      | .ok _ =>
        match throwTo f cfg marks pc next stk [(0, 0)] with
        | .error e => .error e
        | .ok t => .ok (⟨next, stk, []⟩ :: t)
    | .as_ =>
      match need pc 2 stk with
      | .error e => .error e
      | .ok _ =>
        match throwTo f cfg marks pc next stk [(1, 0)] with
        | .error e => .error e
        | .ok t => .ok (⟨next, stk.drop 1, []⟩ :: t)
    | .closure =>
      match stk with
      | .fn k :: r =>
        match P[k]? with
        | none => .error (.closureFn pc)
        | some g =>
          if g.upvalues = i.ups.length then
            match chkUps f pc i.ups with
            | .error e => .error e
            | .ok _ => .ok [⟨next, .any :: r, []⟩]
          else .error (.closureFn pc)
      | _ => .error (.closureFn pc)
    | .generator => .ok [⟨next, .any :: stk, []⟩, ⟨next + 1, stk, []⟩]
    | .promise =>
      match stk with
      | _ :: r => .ok [⟨next, .any :: r, []⟩, ⟨next + 1, r, []⟩]
      | [] => .error (.underflow pc 1 0)
    | .yield =>
      match stk with
      | _ :: r => .ok [⟨next, r, []⟩]
      | [] => .error (.underflow pc 1 0)
    | .stopIteration =>
      -- `CallGeneratorNext`: after the raise the generator resumes at the final `STOP_ITERATION; LOOP`
      -- (`len(inst) - 4`) with the stack it had here
      if 4 ≤ f.code.size then .ok [⟨f.code.size - 4, stk, []⟩] else .error (.badJump pc 0)
    | .await =>
      match stk with
      | _ :: r =>
        match throwTo f cfg marks pc next stk [(1, 0)] with
        | .error e => .error e
        | .ok t => .ok (⟨next, stk, []⟩ :: ⟨next + 1, .any :: r, []⟩ :: t)
      | [] => .error (.underflow pc 1 0)
    | .awaitResult => stackStep f cfg marks pc next stk 1 1 [(1, 0)]
    | .awaitSync => stackStep f cfg marks pc next stk 1 1 [(1, 0)]
    | .select =>
      match stk with
      | .sel n c :: _ =>
        match need pc (n + 1) stk, throwTo f cfg marks pc next stk [(n + 1, 0)] with
        | .error e, _ => .error e
        | _, .error e => .error e
        | .ok _, .ok t =>
          -- pushes the result and the index of the chosen case (one successor per case)
          .ok ((List.range c).map (fun (k : Nat) => (⟨next, .int (k : Int) :: .any :: stk.drop (n + 1), []⟩ : St)) ++ t)
      | _ => .error (.operandKind pc)
    | .execDefer =>
      match stk with
      | .int idx :: _ =>
        if 0 ≤ idx then
          match chkLocal f pc idx.toNat with
          | .error e => .error e
          | .ok _ => stackStep f cfg marks pc next stk 1 0 [(1, 0), (1, 1)]
        else .error (.localIndex pc 0)
      | _ => .error (.operandKind pc)
    | .invalid => .error (.invalidOp pc)

def Catch.protects (c : Catch) (pc : Nat) : Bool := c.from_ ≤ (pc : Int) && (pc : Int) < c.to

/-- marks of a state at `pc` with operand-stack depth `depth`, reached from a state at `prev`
(`none`: activation entry) that carried `old` -/
def marksFor (f : Func) (prev : Option Nat) (old : List (Option Nat)) (pc depth : Nat) : List (Option Nat) :=
  (List.range f.catches.length).map fun k =>
    match f.catches[k]? with
    | none => none
    | some c =>
      if c.protects pc then
        match prev with
        | some q =>
          if c.protects q then
            match old[k]? with
            | some (some d) => some d
            | _ => some depth
          else some depth
        | none => some depth
      else none

/-- One instruction of the abstract machine: all successor states. -/
def exec (P : Prog) (f : Func) (cfg : Cfg) (s : St) : Except Fault (List St) :=
  match execRaw P f cfg s with
  | .error e => .error e
  | .ok l =>
    if cfg.lax then .ok (l.map fun s' => { s' with marks := marksFor f (some s.pc) s.marks s'.pc s'.stk.length })
    else .ok l

/-- entry state of an activation: first instruction, empty operand stack -/
def St.entry (f : Func) (cfg : Cfg) : St :=
  ⟨0, [], if cfg.lax then marksFor f none [] 0 0 else []⟩

/-- the states an activation of `f` can be in -/
inductive Reachable (P : Prog) (f : Func) (cfg : Cfg) : St → Prop where
  | entry : Reachable P f cfg (St.entry f cfg)
  | step {s s' : St} {l : List St} : Reachable P f cfg s → exec P f cfg s = .ok l → s' ∈ l →
      Reachable P f cfg s'

end Elk.Bytecode
