import ElkVerif.Model.Bytecode.Op
/-!
# Instruction decoder (C29)

`decodeAt` reads one instruction the way the VM's handlers read it (`readByte`/`readUint16` after
the opcode byte, `opClosure`'s descriptor loop); every byte read is bounds-checked and a failed read
is a `Fault`. `sweep` walks the code from offset 0 as `BytecodeFunction.Disassemble` does and
returns the instruction boundaries.
The width of an instruction is taken from the probed disassembler layout (`Gen.Opcodes.rows`); it
must equal the width the semantic table's operand encoding implies, else `Fault.layout`.
-/
namespace Elk.Bytecode

inductive Fault where
  | pcOut (pc : Nat)                       -- instruction fetch outside `Instructions`
  | unknownOp (pc op : Nat)                -- no opcode of that byte / not in the semantic table
  | layout (pc op : Nat)                   -- disassembler layout ≠ VM operand encoding (or it panics)
  | truncated (pc : Nat)                   -- operand byte outside `Instructions`
  | underflow (pc need depth : Nat)         -- operand stack would go below the frame's locals
  | constIndex (pc idx : Nat)              -- constant index outside `Values`
  | constKind (pc idx : Nat)               -- constant of the wrong kind for the handler's cast
  | localIndex (pc idx : Nat)              -- local slot outside the frame
  | upvalueIndex (pc idx : Nat)            -- upvalue index ≥ UpvalueCount
  | badOperand (pc : Nat)                  -- range flag / namespace byte the handler panics on
  | badJump (pc target : Nat)              -- jump target outside the function (or backwards below 0)
  | dynJump (pc : Nat)                     -- JUMP_TO_FINALLY without a known offset/counter on the stack
  | noFinally (pc : Nat)                   -- JUMP_TO_FINALLY with a positive counter and no enclosing finally
  | invalidOp (pc : Nat)                   -- opcode without a handler in `Thread.run`
  | prepNotFirst (pc : Nat)                -- PREP_LOCALS not at offset 0
  | closureFn (pc : Nat)                   -- CLOSURE without a function constant on top / wrong descriptor count
  | handlerDepth (pc : Nat)                -- (lax mode) a covered instruction raises below the handler's depth
  | operandKind (pc : Nat)                 -- SELECT / EXEC_DEFER without its descriptor / index on top
  | tooDeep (pc : Nat)                     -- analysis limit: operand stack deeper than the cap / too many states
  | certRejected                           -- the searched state set failed the certificate check
deriving DecidableEq, Repr, Inhabited

structure OpInfo where
  name : String
  layout : Nat
  sem : Sem
deriving Repr, Inhabited

/-- the probed rows paired position by position with the semantic table (the generator lists them
in that order) -/
def opRows : List ((Nat × String × Nat) × (String × Sem)) := Gen.Opcodes.rows.zip semTable

/-- opcode byte ↦ (name, probed layout, semantics). A pair whose names differ is ignored, so a
misaligned table only makes opcodes unknown (and `C29.tables_agree` fail). -/
def opInfo (op : Nat) : Option OpInfo :=
  match opRows.find? (fun p => p.1.1 == op && p.1.2.1 == p.2.1) with
  | some p => some ⟨p.1.2.1, p.1.2.2, p.2.2⟩
  | none => none

structure Instr where
  pc : Nat
  op : Nat
  info : OpInfo
  a : Nat                      -- first operand, unsigned
  b : Nat                      -- second operand, unsigned
  sa : Int                     -- first operand read as signed (s8 / s16 encodings)
  width : Nat
  ups : List (Bool × Nat)      -- closure descriptors: (captures a local of the enclosing frame?, index)
deriving Repr, Inhabited

def rd (code : Array Nat) (i : Nat) : Except Fault Nat :=
  match code[i]? with
  | some b => .ok b
  | none => .error (.truncated i)

def rd16 (code : Array Nat) (i : Nat) : Except Fault Nat :=
  match code[i]?, code[i + 1]? with
  | some a, some b => .ok (a * 256 + b)
  | _, _ => .error (.truncated i)

def signed8 (n : Nat) : Int := if n ≥ 128 then (n : Int) - 256 else n
def signed16 (n : Nat) : Int := if n ≥ 32768 then (n : Int) - 65536 else n

/-- `opClosure`/`opClosedClosure` descriptor loop: returns the descriptors and the offset after the terminator -/
def decodeUps (code : Array Nat) : (fuel : Nat) → (pos : Nat) → Except Fault (List (Bool × Nat) × Nat)
  | 0, pos => .error (.truncated pos)
  | fuel + 1, pos =>
    match rd code pos with
    | .error e => .error e
    | .ok fl =>
      if fl = Gen.Opcodes.closureTerminator then .ok ([], pos + 1)
      else
        let isLocal := (fl / Gen.Opcodes.upvalueLocalFlag) % 2 = 1
        if (fl / Gen.Opcodes.upvalueLongFlag) % 2 = 1 then
          match rd16 code (pos + 1) with
          | .error e => .error e
          | .ok idx =>
            match decodeUps code fuel (pos + 3) with
            | .error e => .error e
            | .ok (l, p) => .ok ((isLocal, idx) :: l, p)
        else
          match rd code (pos + 1) with
          | .error e => .error e
          | .ok idx =>
            match decodeUps code fuel (pos + 2) with
            | .error e => .error e
            | .ok (l, p) => .ok ((isLocal, idx) :: l, p)

def mkInstr (pc op : Nat) (info : OpInfo) (a b : Nat) (sa : Int) (w : Nat) : Except Fault Instr :=
  if info.layout = w then .ok ⟨pc, op, info, a, b, sa, w, []⟩ else .error (.layout pc op)

/-- read the operands of the instruction whose opcode byte is at `pc` -/
def decodeOperands (code : Array Nat) (pc op : Nat) (info : OpInfo) : Opnd → Except Fault Instr
  | .e => mkInstr pc op info 0 0 0 1
  | .u8 =>
    match rd code (pc + 1) with
    | .ok a => mkInstr pc op info a 0 a 2
    | .error e => .error e
  | .s8 =>
    match rd code (pc + 1) with
    | .ok a => mkInstr pc op info a 0 (signed8 a) 2
    | .error e => .error e
  | .u16 =>
    match rd16 code (pc + 1) with
    | .ok a => mkInstr pc op info a 0 a 3
    | .error e => .error e
  | .s16 =>
    match rd16 code (pc + 1) with
    | .ok a => mkInstr pc op info a 0 (signed16 a) 3
    | .error e => .error e
  | .u8u8 =>
    match rd code (pc + 1) with
    | .error e => .error e
    | .ok a =>
      match rd code (pc + 2) with
      | .error e => .error e
      | .ok b => mkInstr pc op info a b a 3
  | .u16u8 =>
    match rd16 code (pc + 1) with
    | .error e => .error e
    | .ok a =>
      match rd code (pc + 3) with
      | .error e => .error e
      | .ok b => mkInstr pc op info a b a 4
  | .u8u16 =>
    match rd code (pc + 1) with
    | .error e => .error e
    | .ok a =>
      match rd16 code (pc + 2) with
      | .error e => .error e
      | .ok b => mkInstr pc op info a b a 4
  | .closure =>
    if info.layout ≠ 255 then .error (.layout pc op)
    else match decodeUps code code.size (pc + 1) with
      | .error e => .error e
      | .ok (ups, p) => .ok ⟨pc, op, info, 0, 0, 0, p - pc, ups⟩

def decodeOp (code : Array Nat) (pc op : Nat) : Option OpInfo → Except Fault Instr
  | none => .error (.unknownOp pc op)
  | some info => decodeOperands code pc op info info.sem.opnd

/-- decode the instruction at `pc` -/
def decodeAt (code : Array Nat) (pc : Nat) : Except Fault Instr :=
  match code[pc]? with
  | none => .error (.pcOut pc)
  | some op => decodeOp code pc op (opInfo op)

/-- Linear sweep from offset 0 (`BytecodeFunction.Disassemble`): the instruction start offsets.
`fuel` bounds the number of instructions; `code.size + 1` always suffices (`sweep_fuel`). -/
def sweepFrom (code : Array Nat) : (fuel : Nat) → (pc : Nat) → Except Fault (List Nat)
  | 0, pc => .error (.pcOut pc)
  | fuel + 1, pc =>
    if pc = code.size then .ok []
    else match decodeAt code pc with
      | .error e => .error e
      | .ok i =>
        if i.width = 0 then .error (.layout pc i.op)
        else match sweepFrom code fuel (pc + i.width) with
          | .error e => .error e
          | .ok l => .ok (pc :: l)

/-- instruction boundaries of a function body (empty code has none) -/
def sweep (code : Array Nat) : Except Fault (List Nat) := sweepFrom code (code.size + 1) 0

end Elk.Bytecode

namespace Elk.Bytecode

/-- Mirror of the checks `BytecodeFunction.Disassemble` makes beyond operand lengths, for the
`bc decode` correspondence: value-index operands must be `< nvalues`, the `DEF_NAMESPACE` type byte
`≤ 3`. Error classes are spelled as the harness spells the real errors. -/
def disasmFrom (code : Array Nat) (nvalues : Nat) : (fuel : Nat) → (pc : Nat) → Except (Nat × String) (List Nat)
  | 0, pc => .error (pc, "fuel")
  | fuel + 1, pc =>
    if pc ≥ code.size then .ok [pc]
    else match decodeAt code pc with
      | .error (.unknownOp _ _) => .error (pc, "unknown")
      | .error (.truncated _) => .error (pc, "short")
      | .error (.layout _ _) => .error (pc, "layout")
      | .error _ => .error (pc, "other")
      | .ok i =>
        let idx? : Option Nat := match i.info.sem.act with
          | .loadValue fixed => some (fixed.getD i.a)
          | .call _ => some i.a
          | .symOp _ _ _ => some i.a
          | _ => none
        match idx? with
        | some idx =>
          if idx ≥ nvalues then .error (pc, "value")
          else match disasmFrom code nvalues fuel (pc + i.width) with
            | .error e => .error e
            | .ok l => .ok (pc :: l)
        | none =>
          if i.info.sem.act = .defNamespace ∧ i.a > 3 then .error (pc, "namespace")
          else if i.width = 0 then .error (pc, "layout")
          else match disasmFrom code nvalues fuel (pc + i.width) with
            | .error e => .error e
            | .ok l => .ok (pc :: l)

def disasm (code : Array Nat) (nvalues : Nat) : Except (Nat × String) (List Nat) :=
  if code.size = 0 then .ok [0] else disasmFrom code nvalues (code.size + 1) 0

end Elk.Bytecode
