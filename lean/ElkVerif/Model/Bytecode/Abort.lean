import ElkVerif.Model.Bytecode.Verify
/-!
# Abort-check placement (C33)

On top of the C29 decoder and abstract machine: the control-flow graph of a program over nodes
`(function, machine state)`

 * intra-procedural edges: every `(s, s')` for a state `s` of the function's C29 certificate
   and a successor `s'` of `exec` (so every step of the abstract machine is an edge: `edge_of_step`);
   loop back-edges, handler entries, `finally` detours and generator resumption are among them;
 * tail-call edges: `CALL_METHOD_BC*` with the tail flag to its callee's entry, `CALL_METHOD_TCO*`
   to the entry of every function of the program whose method name is the call site's;

and the **check nodes**: instructions at which the VM looks at its context (`CHECK_ABORT`; `SELECT`,
whose first case is the context's `Done` channel).

A *ranking* `rank : Node → Nat` is valid when it strictly decreases along every edge that leaves a
node which is not a check node. `rank_valid_bounds` (Proofs/Abort): a valid ranking bounds the
length of every path that passes no check node. The ranking is computed by an untrusted search
(`findRank`) and checked by `validRank`; when none exists the search returns a check-free cycle.
-/
namespace Elk.Bytecode.Abort

abbrev Node := Nat × St       -- (function index, abstract machine state): path-sensitive, so that the
                              -- flag-discriminated paths through a shared `finally` epilogue stay apart

structure Graph where
  edges : List (Node × Node)
  checks : Std.HashSet Node

def Graph.isCheck (g : Graph) (u : Node) : Bool := g.checks.contains u

/-- the VM consults the thread's context at this instruction (`CHECK_ABORT`; `SELECT`, whose first
case is the context's `Done` channel), or the activation is suspended and control goes back to
whoever resumed it (`YIELD`, `STOP_ITERATION`: `run` returns to `CallGeneratorNext`'s caller, whose
own loop carries the checks) -/
def isCheckAct : Act → Bool
  | .checkAbort => true
  | .select => true
  | .yield => true
  | .stopIteration => true
  | _ => false

def isCheckPc (f : Func) (pc : Nat) : Bool :=
  match decodeAt f.code pc with
  | .ok i => isCheckAct i.info.sem.act
  | .error _ => false

/-- edges of one activation: all machine steps from the states of a certificate -/
def intraEdges (P : Prog) (k : Nat) (f : Func) (cfg : Cfg) (cert : List St) : List (Node × Node) :=
  cert.flatMap fun s =>
    match exec P f cfg s with
    | .ok l => l.map fun s' => ((k, s), (k, s'))
    | .error _ => []

/-- last segment of a function name (`G1::m0` ↦ `m0`, `Foo.:bar` ↦ `bar`) -/
def methodName (n : String) : String :=
  let parts := (n.splitOn "::").getLast?.getD n
  (parts.splitOn ".:").getLast?.getD parts

/-- tail-call edges out of the instruction at `pc` -/
def tailTargets (P : Prog) (names : Array String) (f : Func) (callNames : Array String) (i : Instr) : List Nat :=
  match i.info.sem.act with
  | .call .bc =>
    match f.consts[i.a]? with
    | some (.bcSite _ true callee) => if 0 ≤ callee then [callee.toNat] else []
    | _ => []
  | .call .dynTco =>
    let nm := callNames[i.a]?.getD ""
    if nm.isEmpty then [] else
      (List.range P.size).filter fun j => methodName (names[j]?.getD "") == nm
  | _ => []

def tailEdges (P : Prog) (names : Array String) (k : Nat) (f : Func) (cfg : Cfg) (callNames : Array String) (cert : List St) :
    List (Node × Node) :=
  cert.flatMap fun s =>
    match decodeAt f.code s.pc with
    | .ok i => (tailTargets P names f callNames i).filterMap fun j =>
        match P[j]? with
        | some g => some ((k, s), (j, St.entry g cfg))
        | none => none
    | .error _ => []

/-- **Trusted check**: `rank` strictly decreases along every edge that leaves a non-check node. -/
def validRank (g : Graph) (rank : Node → Nat) : Bool :=
  g.edges.all fun e => g.isCheck e.1 || rank e.2 < rank e.1

/-! ## untrusted ranking search: depth-first longest-path over the check-free edges -/

structure Frame where
  node : Node
  todo : List Node
  best : Nat

/-- one DFS over the constrained adjacency `adj` (check nodes have none); `Except` carries a cycle -/
def dfs (adj : Std.HashMap Node (List Node)) :
    (fuel : Nat) → (stack : List Frame) → (memo : Std.HashMap Node Nat) → (onStack : Std.HashSet Node) →
    Except (List Node) (Std.HashMap Node Nat)
  | 0, _, memo, _ => .ok memo
  | _ + 1, [], memo, _ => .ok memo
  | fuel + 1, fr :: rest, memo, onStack =>
    match fr.todo with
    | [] =>
      let memo := memo.insert fr.node fr.best
      let onStack := onStack.erase fr.node
      match rest with
      | [] => .ok memo
      | p :: rest' => dfs adj fuel ({ p with best := max p.best (fr.best + 1) } :: rest') memo onStack
    | v :: vs =>
      match memo[v]? with
      | some r => dfs adj fuel ({ fr with todo := vs, best := max fr.best (r + 1) } :: rest) memo onStack
      | none =>
        if onStack.contains v then
          -- cycle: the frames from the top of the stack down to `v`
          .error (v :: (((fr :: rest).map (·.node)).takeWhile (· != v)).reverse ++ [v])
        else
          dfs adj fuel (⟨v, adj[v]?.getD [], 0⟩ :: { fr with todo := vs } :: rest) memo (onStack.insert v)

def findRank (g : Graph) : Except (List Node) (Std.HashMap Node Nat) :=
  let adj : Std.HashMap Node (List Node) :=
    g.edges.foldl (fun m e => if g.isCheck e.1 then m else m.insert e.1 (e.2 :: (m[e.1]?.getD []))) {}
  let nodes := g.edges.foldl (fun acc e => e.1 :: e.2 :: acc) []
  let fuel := 4 * (g.edges.length + nodes.length) + 16
  nodes.foldl
    (fun acc u =>
      match acc with
      | .error c => .error c
      | .ok memo => if memo.contains u then .ok memo else dfs adj fuel [⟨u, adj[u]?.getD [], 0⟩] memo (({} : Std.HashSet Node).insert u))
    (.ok {})

inductive Result where
  | ranked (nodes edges maxRank : Nat)
  | cycle (c : List Node)
  | rejected            -- the search returned a ranking that `validRank` refuses (machinery bug)
deriving Repr, Inhabited

/-- Build the graph of a program from the certificates of its verified functions, search a ranking, check it.
Returns the result and the indices of the functions that have no C29 certificate (not covered). -/
def checkProgram (P : Prog) (names : Array String) (callNames : Array (Array String)) : Result × List Nat :=
  let cfg : Cfg := { lax := true }
  let (edges, checks, missing) :=
    (List.range P.size).foldl
      (fun (acc : List (Node × Node) × Std.HashSet Node × List Nat) k =>
        match P[k]? with
        | none => acc
        | some f =>
          match verifyFuncD P f true, sweep f.code with
          | .ok v, .ok _ =>
            let cs := v.cert.foldl (fun h s => if isCheckPc f s.pc then h.insert (k, s) else h) acc.2.1
            (intraEdges P k f cfg v.cert ++ tailEdges P names k f cfg (callNames[k]?.getD #[]) v.cert ++ acc.1, cs, acc.2.2)
          | _, _ => (acc.1, acc.2.1, k :: acc.2.2))
      ([], {}, [])
  let g : Graph := ⟨edges, checks⟩
  match findRank g with
  | .error c => (.cycle c, missing.reverse)
  | .ok memo =>
    let rank : Node → Nat := fun u => memo[u]?.getD 0
    if validRank g rank then
      (.ranked memo.size edges.length (memo.fold (fun m _ r => max m r) 0), missing.reverse)
    else (.rejected, missing.reverse)

end Elk.Bytecode.Abort
