import ElkVerif.Model.Iter
/-!
# The eight range kinds over `Int` bounds (C23): `vm/*range*.go`, `value/*range*.go`

`contains` mirrors `XRangeContains` (two comparisons, the second only when the first holds), the
iterators mirror `XRangeIteratorNext` line by line: closed/right-open ranges test *then* increment,
open/left-open ranges increment *then* test (and keep incrementing their `CurrentElement` when
`next` is called again after the end).
-/
namespace Elk.Range
open Elk.Iter

inductive Kind
  | closed          -- a...b
  | open            -- a<.<b
  | leftOpen        -- a<..b
  | rightOpen       -- a..<b
  | endlessClosed   -- a...
  | endlessOpen     -- a<..
  | beginlessClosed -- ...b
  | beginlessOpen   -- ..<b
  deriving DecidableEq, Repr

/-- a range with `Int` bounds; the bound a kind does not have is ignored -/
structure Range where
  kind : Kind
  lo : Int
  hi : Int
  deriving DecidableEq, Repr

/-- `ClosedRangeContains`, `OpenRangeContains`, … -/
def Range.contains (r : Range) (x : Int) : Bool :=
  match r.kind with
  | .closed => if !(decide (x ≥ r.lo)) then false else decide (x ≤ r.hi)
  | .open => if !(decide (x > r.lo)) then false else decide (x < r.hi)
  | .leftOpen => if !(decide (x > r.lo)) then false else decide (x ≤ r.hi)
  | .rightOpen => if !(decide (x ≥ r.lo)) then false else decide (x < r.hi)
  | .endlessClosed => decide (x ≥ r.lo)
  | .endlessOpen => decide (x > r.lo)
  | .beginlessClosed => decide (x ≤ r.hi)
  | .beginlessOpen => decide (x < r.hi)

/-- what the range notation means -/
def Range.Bounds (r : Range) (x : Int) : Prop :=
  match r.kind with
  | .closed => r.lo ≤ x ∧ x ≤ r.hi
  | .open => r.lo < x ∧ x < r.hi
  | .leftOpen => r.lo < x ∧ x ≤ r.hi
  | .rightOpen => r.lo ≤ x ∧ x < r.hi
  | .endlessClosed => r.lo ≤ x
  | .endlessOpen => r.lo < x
  | .beginlessClosed => x ≤ r.hi
  | .beginlessOpen => x < r.hi

def Kind.iterable : Kind → Bool
  | .beginlessClosed | .beginlessOpen => false
  | _ => true

def Kind.finite : Kind → Bool
  | .closed | .open | .leftOpen | .rightOpen => true
  | _ => false

/-- `XRangeIteratorNext`; the state is `CurrentElement` (initially the start of the range) -/
def Range.next (r : Range) (cur : Int) : Step Int Int Empty :=
  match r.kind with
  | .closed => if cur > r.hi then .stop cur else .yield cur (cur + 1)
  | .rightOpen => if cur ≥ r.hi then .stop cur else .yield cur (cur + 1)
  | .open => let c := cur + 1; if c ≥ r.hi then .stop c else .yield c c
  | .leftOpen => let c := cur + 1; if c > r.hi then .stop c else .yield c c
  | .endlessClosed => .yield cur (cur + 1)
  | .endlessOpen => .yield (cur + 1) (cur + 1)
  | .beginlessClosed | .beginlessOpen => .stop cur     -- no `iter`: never reached

def Range.iterator (r : Range) : Iterator Int Int Empty := ⟨r.next⟩

/-- `n` consecutive integers from `lo` -/
def intsFrom (lo : Int) : Nat → List Int
  | 0 => []
  | n + 1 => lo :: intsFrom (lo + 1) n

/-- the elements a finite range iterates over, as a closed form -/
def Range.toList (r : Range) : List Int :=
  match r.kind with
  | .closed => intsFrom r.lo (r.hi - r.lo + 1).toNat
  | .rightOpen => intsFrom r.lo (r.hi - r.lo).toNat
  | .leftOpen => intsFrom (r.lo + 1) (r.hi - r.lo).toNat
  | .open => intsFrom (r.lo + 1) (r.hi - r.lo - 1).toNat
  | _ => []

/-- the first `n` elements of an endless range -/
def Range.firstN (r : Range) (n : Nat) : List Int :=
  match r.kind with
  | .endlessClosed => intsFrom r.lo n
  | .endlessOpen => intsFrom (r.lo + 1) n
  | _ => r.toList.take n

/-- enough fuel to exhaust a finite range -/
def Range.fuel (r : Range) : Nat := (r.hi - r.lo).toNat + 2

end Elk.Range
