/-
Model of the channel and sync-primitive wrappers (C25). Core Lean only.

  value/channel_of_value.go, value/native_channel.go   `Chan`   (Push/Pop/Close and their recover()s)
  vm/thread.go opSelect                                  `selectStep`
  value/mutex.go                                         `Mutex`
  value/rwmutex.go                                       `RW`
  value/wait_group.go                                    `WG`
  value/once.go + vm/once.go                             `Once`

The wrappers delegate to Go's `chan`, `sync.Mutex`, `sync.RWMutex`, `sync.WaitGroup`, `sync.Once`;
that those implement the atomic steps below is trusted (DESIGN §8.1). What is modelled is the
wrapper logic: which outcome each call has in each state — a value, a documented Elk error, a
recovered Go panic turned into an error, an unrecovered Go panic, or a Go `fatal error` that no
`recover()` can catch — and, for operations that block, in which states they can complete.
-/
namespace Elk.Chan

/-- outcome of one wrapper call -/
inductive Out where
  | ok                      -- returned normally, no value
  | val (v : Nat)           -- returned a value
  | errClosedPush           -- Std::Channel::ClosedError "cannot push values to a closed channel"
  | errClosedPop            -- Std::Channel::ClosedError "cannot pop values from a closed channel"
  | errClosedClose          -- Std::Channel::ClosedError "cannot close a closed channel"
  | errUnlocked             -- Std::Sync::Mutex::UnlockedError / RWMutex::UnlockedError
  | panic                   -- Go panic that reaches the caller (not recovered by the wrapper)
  | fatal                   -- Go `fatal error`: the process dies
  | block                   -- the call cannot complete in this state (it blocks)
deriving DecidableEq, Repr, Inhabited

/-! ### channels -/

/-- `chan Value` with capacity `cap`; `buf` are the buffered values, oldest first -/
structure Chan where
  buf : List Nat := []
  cap : Nat := 0
  closed : Bool := false
deriving DecidableEq, Repr, Inhabited

/-- `Push`: `ch.native <- val` under `recover()`. A send on a closed channel panics in Go and the
wrapper turns the panic into `ClosedError` (push). An open full (or unbuffered) channel blocks until a
receiver takes the value (`handoff`). -/
def push (c : Chan) (v : Nat) : Out × Chan :=
  if c.closed then (.errClosedPush, c)
  else if c.buf.length < c.cap then (.ok, { c with buf := c.buf ++ [v] })
  else (.block, c)

/-- `Pop`: `result, ok := <-ch.native`. A closed channel is drained first, then reports `ClosedError`
(pop); an open empty channel blocks. -/
def pop (c : Chan) : Out × Chan :=
  match c.buf with
  | v :: rest => (.val v, { c with buf := rest })
  | [] => if c.closed then (.errClosedPop, c) else (.block, c)

/-- `Close`: `close(ch.native)` under `recover()`: closing twice is a Go panic, turned into
`ClosedError` (close). -/
def close (c : Chan) : Out × Chan :=
  if c.closed then (.errClosedClose, c) else (.ok, { c with closed := true })

/-- rendezvous on an open channel with an empty buffer: a blocked receiver takes the value straight from
the sender (the only way an unbuffered channel transfers anything). -/
def handoffEnabled (c : Chan) : Bool := !c.closed && c.buf.isEmpty

/-- labelled atomic steps of one channel under any number of producer and consumer threads -/
inductive CEv where
  | push (v : Nat)       -- a push completes into the buffer
  | pop                  -- a pop completes from the buffer
  | handoff (v : Nat)    -- a push and a blocked pop complete together
  | close
  | pushClosed (v : Nat) -- a push fails with ClosedError
  | popClosed            -- a pop fails with ClosedError
  | closeClosed          -- a close fails with ClosedError
deriving DecidableEq, Repr, Inhabited

/-- channel with its ghost history: everything pushed successfully and everything delivered, in order -/
structure CSys where
  ch : Chan
  pushed : List Nat := []
  delivered : List Nat := []
deriving Repr, Inhabited

def cstep (s : CSys) : CEv → Option CSys
  | .push v =>
    match push s.ch v with
    | (.ok, c') => some { s with ch := c', pushed := s.pushed ++ [v] }
    | _ => none
  | .pop =>
    match pop s.ch with
    | (.val v, c') => some { s with ch := c', delivered := s.delivered ++ [v] }
    | _ => none
  | .handoff v =>
    if handoffEnabled s.ch then some { s with pushed := s.pushed ++ [v], delivered := s.delivered ++ [v] } else none
  | .close =>
    match close s.ch with
    | (.ok, c') => some { s with ch := c' }
    | _ => none
  | .pushClosed _ => if (push s.ch 0).1 = .errClosedPush then some s else none
  | .popClosed => if (pop s.ch).1 = .errClosedPop then some s else none
  | .closeClosed => if (close s.ch).1 = .errClosedClose then some s else none

def crun : CSys → List CEv → Option CSys
  | s, [] => some s
  | s, e :: es => match cstep s e with
    | some s' => crun s' es
    | none => none

def cinit (cap : Nat) : CSys := { ch := { cap := cap } }

/-! ### select (`vm/thread.go opSelect`, through `reflect.Select`) -/

inductive SelCase where
  | recv (ch : Nat)            -- `case v := <<ch`
  | send (ch : Nat) (v : Nat)  -- `case ch << v`
  | dflt                       -- `else`
deriving DecidableEq, Repr, Inhabited

/-- a case is ready when its channel operation can complete without blocking (a closed channel makes a
receive ready and makes a send "ready" to panic) -/
def caseReady (chans : Nat → Chan) : SelCase → Bool
  | .recv ch => (pop (chans ch)).1 != .block
  | .send ch v => (push (chans ch) v).1 != .block
  | .dflt => false

/-- outcome of executing the chosen case `i` (`opSelect` after the two `fix: select …` commits):
* a receive from an open channel yields the value, from a closed drained channel an error result with
  the *pop* error (before the fix: the push error, the two constants were swapped);
* a send to a closed channel raises the push error (before the fix: the Go panic "send on closed
  channel" out of `reflect.Select` crashed the program — `selectOutcomeBeforeFix`);
* `else` is taken only when no other case is ready. -/
def selectOutcome (chans : Nat → Chan) (cases : List SelCase) (i : Nat) : Option Out :=
  match cases[i]? with
  | none => none
  | some .dflt => if cases.any (caseReady chans) then none else some .ok
  | some (.recv ch) =>
    match pop (chans ch) with
    | (.val v, _) => some (.val v)
    | (.errClosedPop, _) => some .errClosedPop
    | _ => none
  | some (.send ch v) =>
    match push (chans ch) v with
    | (.ok, _) => some .ok
    | (.errClosedPush, _) => some .errClosedPush
    | _ => none

/-- `opSelect` as it was before the fixes (for the record; not used by the driver) -/
def selectOutcomeBeforeFix (chans : Nat → Chan) (cases : List SelCase) (i : Nat) : Option Out :=
  match cases[i]? with
  | none => none
  | some .dflt => if cases.any (caseReady chans) then none else some .ok
  | some (.recv ch) =>
    match pop (chans ch) with
    | (.val v, _) => some (.val v)
    | (.errClosedPop, _) => some .errClosedPush
    | _ => none
  | some (.send ch v) =>
    match push (chans ch) v with
    | (.ok, _) => some .ok
    | (.errClosedPush, _) => some .panic
    | _ => none

/-! ### Mutex (`value/mutex.go`) -/

structure Mutex where
  locked : Bool := false
deriving DecidableEq, Repr, Inhabited

def Mutex.lock (m : Mutex) : Out × Mutex := if m.locked then (.block, m) else (.ok, { locked := true })

/-- `Unlock` (after `fix: Mutex/RWMutex unlock of an unheld lock`): the wrapper tracks whether it is
held (`held.CompareAndSwap(true,false)`) and answers `UnlockedError` otherwise. Before the fix it
called `m.Native.Unlock()` under `recover()`; unlocking an unlocked `sync.Mutex` is not a panic but
`fatal error: sync: unlock of unlocked mutex`, which no `recover()` sees (`Mutex.unlockBeforeFix`). -/
def Mutex.unlock (m : Mutex) : Out × Mutex := if m.locked then (.ok, { locked := false }) else (.errUnlocked, m)

/-- the wrapper as it was before the fix (kept for the record; not used by the driver) -/
def Mutex.unlockBeforeFix (m : Mutex) : Out × Mutex := if m.locked then (.ok, { locked := false }) else (.fatal, m)

/-! ### RWMutex (`value/rwmutex.go`) -/

structure RW where
  readers : Nat := 0
  writer : Bool := false
deriving DecidableEq, Repr, Inhabited

def RW.lock (m : RW) : Out × RW := if m.writer || m.readers != 0 then (.block, m) else (.ok, { m with writer := true })
def RW.rlock (m : RW) : Out × RW := if m.writer then (.block, m) else (.ok, { m with readers := m.readers + 1 })
/-- `Unlock` without a writer: `UnlockedError` (before the fix: `fatal error: sync: Unlock of unlocked RWMutex`) -/
def RW.unlock (m : RW) : Out × RW := if m.writer then (.ok, { m with writer := false }) else (.errUnlocked, m)
/-- `ReadUnlock` without a reader: `UnlockedError` (before the fix: `fatal error: sync: RUnlock of unlocked RWMutex`) -/
def RW.runlock (m : RW) : Out × RW := if m.readers != 0 then (.ok, { m with readers := m.readers - 1 }) else (.errUnlocked, m)

/-! ### WaitGroup (`value/wait_group.go`) -/

structure WG where
  n : Int := 0
deriving DecidableEq, Repr, Inhabited

/-- `Add(k)`: a negative counter is a Go panic ("sync: negative WaitGroup counter"), not recovered -/
def WG.add (w : WG) (k : Int) : Out × WG := if w.n + k < 0 then (.panic, w) else (.ok, { n := w.n + k })
/-- `Remove(k)` = `for range k { Done() }`: k ≤ 0 does nothing; stops at the first panic -/
def WG.remove (w : WG) (k : Int) : Out × WG :=
  if k ≤ 0 then (.ok, w) else if w.n < k then (.panic, { n := 0 }) else (.ok, { n := w.n - k })
def WG.wait (w : WG) : Out × WG := if w.n = 0 then (.ok, w) else (.block, w)

/-! ### Once (`value/once.go`, `vm/once.go OnceDo`) -/

structure Once where
  done : Bool := false
  runs : Nat := 0          -- ghost: how often the body ran
deriving DecidableEq, Repr, Inhabited

def Once.call (o : Once) : Out × Once := if o.done then (.ok, o) else (.ok, { done := true, runs := o.runs + 1 })

/-! ### one sequential script over a set of objects (the correspondence domain `sy`) -/

inductive Op where
  | chNew (id cap : Nat) | chPush (id v : Nat) | chPop (id : Nat) | chClose (id : Nat) | chLen (id : Nat)
  | muNew (id : Nat) | muLock (id : Nat) | muUnlock (id : Nat)
  | rwNew (id : Nat) | rwLock (id : Nat) | rwRLock (id : Nat) | rwUnlock (id : Nat) | rwRUnlock (id : Nat)
  | wgNew (id : Nat) | wgAdd (id : Nat) (k : Int) | wgRemove (id : Nat) (k : Int) | wgWait (id : Nat)
  | onNew (id : Nat) | onCall (id : Nat)
deriving DecidableEq, Repr, Inhabited

structure World where
  ch : Nat → Chan := fun _ => {}
  mu : Nat → Mutex := fun _ => {}
  rw : Nat → RW := fun _ => {}
  wg : Nat → WG := fun _ => {}
  on : Nat → Once := fun _ => {}

def updw {α : Type} (f : Nat → α) (k : Nat) (v : α) : Nat → α := fun x => if x = k then v else f x

def World.step (w : World) : Op → Out × World
  | .chNew id cap => (.ok, { w with ch := updw w.ch id { cap := cap } })
  | .chPush id v => let (o, c) := push (w.ch id) v; (o, { w with ch := updw w.ch id c })
  | .chPop id => let (o, c) := pop (w.ch id); (o, { w with ch := updw w.ch id c })
  | .chClose id => let (o, c) := close (w.ch id); (o, { w with ch := updw w.ch id c })
  | .chLen id => (.val (w.ch id).buf.length, w)
  | .muNew id => (.ok, { w with mu := updw w.mu id {} })
  | .muLock id => let (o, m) := (w.mu id).lock; (o, { w with mu := updw w.mu id m })
  | .muUnlock id => let (o, m) := (w.mu id).unlock; (o, { w with mu := updw w.mu id m })
  | .rwNew id => (.ok, { w with rw := updw w.rw id {} })
  | .rwLock id => let (o, m) := (w.rw id).lock; (o, { w with rw := updw w.rw id m })
  | .rwRLock id => let (o, m) := (w.rw id).rlock; (o, { w with rw := updw w.rw id m })
  | .rwUnlock id => let (o, m) := (w.rw id).unlock; (o, { w with rw := updw w.rw id m })
  | .rwRUnlock id => let (o, m) := (w.rw id).runlock; (o, { w with rw := updw w.rw id m })
  | .wgNew id => (.ok, { w with wg := updw w.wg id {} })
  | .wgAdd id k => let (o, g) := (w.wg id).add k; (o, { w with wg := updw w.wg id g })
  | .wgRemove id k => let (o, g) := (w.wg id).remove k; (o, { w with wg := updw w.wg id g })
  | .wgWait id => let (o, g) := (w.wg id).wait; (o, { w with wg := updw w.wg id g })
  | .onNew id => (.ok, { w with on := updw w.on id {} })
  | .onCall id => let (_, c) := (w.on id).call; (.val c.runs, { w with on := updw w.on id c })

/-- run a script; a blocking, panicking or fatal call ends it (the harness never issues a call that would block:
the python side skips those using this model's `block` answer, and a fatal kills the worker) -/
def World.run : World → List Op → List Out
  | _, [] => []
  | w, op :: ops =>
    let (o, w') := w.step op
    match o with
    | .block => [o]
    | .fatal => [o]
    | .panic => [o]
    | _ => o :: World.run w' ops

end Elk.Chan

namespace Elk.Chan

/-! ### threads using one mutex / rwmutex (for the mutual-exclusion theorems) -/

/-- a mutex together with the threads that are between their `lock` and their `unlock` -/
structure MSys where
  m : Mutex := {}
  inside : List Nat := []
deriving Repr, Inhabited

inductive MEv where
  | lock (a : Nat)
  | unlock (a : Nat)     -- by a thread that is inside (well-behaved client)
deriving DecidableEq, Repr, Inhabited

def mstep (s : MSys) : MEv → Option MSys
  | .lock a =>
    match s.m.lock with
    | (.ok, m') => some { m := m', inside := a :: s.inside }
    | _ => none
  | .unlock a =>
    if a ∈ s.inside then
      match s.m.unlock with
      | (.ok, m') => some { m := m', inside := s.inside.erase a }
      | _ => none
    else none

def mrun : MSys → List MEv → Option MSys
  | s, [] => some s
  | s, e :: es => match mstep s e with
    | some s' => mrun s' es
    | none => none

structure RSys where
  m : RW := {}
  writers : List Nat := []
  readers : List Nat := []
deriving Repr, Inhabited

inductive REv where
  | lock (a : Nat) | unlock (a : Nat) | rlock (a : Nat) | runlock (a : Nat)
deriving DecidableEq, Repr, Inhabited

def rstep (s : RSys) : REv → Option RSys
  | .lock a =>
    match s.m.lock with
    | (.ok, m') => some { s with m := m', writers := a :: s.writers }
    | _ => none
  | .rlock a =>
    match s.m.rlock with
    | (.ok, m') => some { s with m := m', readers := a :: s.readers }
    | _ => none
  | .unlock a =>
    if a ∈ s.writers then
      match s.m.unlock with
      | (.ok, m') => some { s with m := m', writers := s.writers.erase a }
      | _ => none
    else none
  | .runlock a =>
    if a ∈ s.readers then
      match s.m.runlock with
      | (.ok, m') => some { s with m := m', readers := s.readers.erase a }
      | _ => none
    else none

def rrun : RSys → List REv → Option RSys
  | s, [] => some s
  | s, e :: es => match rstep s e with
    | some s' => rrun s' es
    | none => none

/-- a sequence of WaitGroup calls -/
inductive WEv where
  | add (k : Int) | remove (k : Int)
deriving DecidableEq, Repr, Inhabited

def wstep (w : WG) : WEv → Option WG
  | .add k => match w.add k with | (.ok, w') => some w' | _ => none
  | .remove k => match w.remove k with | (.ok, w') => some w' | _ => none

def wrun : WG → List WEv → Option WG
  | w, [] => some w
  | w, e :: es => match wstep w e with
    | some w' => wrun w' es
    | none => none

/-- net count of a call sequence: adds minus (positive) removes -/
def wnet : List WEv → Int
  | [] => 0
  | .add k :: es => k + wnet es
  | .remove k :: es => (if k ≤ 0 then 0 else -k) + wnet es

def orun : Once → Nat → Once
  | o, 0 => o
  | o, n + 1 => orun o.call.2 n

end Elk.Chan
