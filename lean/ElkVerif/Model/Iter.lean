/-!
# The iterator protocol and the native loops of `vm/iterable.go` (C23)

`vm.Iterate` drives every iterable through one protocol: ask for the next element until the
iterator throws `:stop_iteration` (`IterateIterator`, `value.IterateNativeIterator`); any other
error ends the iteration and is returned by the native. Each native of
`Std::Iterable::FiniteBase` / `Base` is a `for elem, err := range Iterate(vm, self) { … }` loop
with an accumulator, possibly a `break`/early `return`, and a final result. They are written here as
exactly that: `Loop.init`, `Loop.body` (continue with a new accumulator or break with the result)
and `Loop.done`.
-/
namespace Elk.Iter

/-- one call of `next` -/
inductive Step (σ α ε : Type)
  | yield (a : α) (s : σ)     -- an element
  | stop (s : σ)              -- `:stop_iteration`
  | err (e : ε) (s : σ)       -- any other thrown value
  deriving Repr

/-- an iterator: a state machine -/
structure Iterator (σ α ε : Type) where
  next : σ → Step σ α ε

inductive Ctl (β ρ : Type)
  | cont (b : β)     -- go on with the next element
  | brk (r : ρ)      -- `break` / early `return`

/-- a native loop -/
structure Loop (α β ρ : Type) where
  init : β
  body : β → α → Ctl β ρ
  done : β → ρ

/-- outcome of running a loop over an iterator: result or the iterator's error, and the iterator
state that is left behind; `fuel` = the bound of this executable model was reached (an endless
iterator and a loop that never breaks) -/
inductive Res (ρ ε σ : Type)
  | ok (r : ρ) (s : σ)
  | err (e : ε) (s : σ)
  | fuel
  deriving Repr

/-- `for elem, err := range Iterate(vm, self) { if err → return err; body }` then `done` -/
def Loop.runFrom {α β ρ σ ε} (L : Loop α β ρ) (it : Iterator σ α ε) : Nat → σ → β → Res ρ ε σ
  | 0, _, _ => .fuel
  | n + 1, s, b =>
    match it.next s with
    | .stop s' => .ok (L.done b) s'
    | .err e s' => .err e s'
    | .yield a s' =>
      match L.body b a with
      | .cont b' => L.runFrom it n s' b'
      | .brk r => .ok r s'

def Loop.run {α β ρ σ ε} (L : Loop α β ρ) (it : Iterator σ α ε) (fuel : Nat) (s : σ) : Res ρ ε σ :=
  L.runFrom it fuel s L.init

/-- the same loop over a materialised list -/
def Loop.listFrom {α β ρ} (L : Loop α β ρ) : List α → β → ρ
  | [], b => L.done b
  | a :: l, b =>
    match L.body b a with
    | .cont b' => L.listFrom l b'
    | .brk r => r

def Loop.onList {α β ρ} (L : Loop α β ρ) (l : List α) : ρ := L.listFrom l L.init

/-- how an iteration ends -/
inductive End (ε : Type) | done | err (e : ε) | fuel
  deriving Repr, DecidableEq

/-- pull everything (`to_list` without the list): the elements seen and how it ended -/
def drain {σ α ε} (it : Iterator σ α ε) : Nat → σ → List α × End ε
  | 0, _ => ([], .fuel)
  | n + 1, s =>
    match it.next s with
    | .stop _ => ([], .done)
    | .err e _ => ([], .err e)
    | .yield a s' => let (l, e) := drain it n s'; (a :: l, e)

/-- a loop over a drained prefix whose end is known -/
def Loop.listEndFrom {α β ρ ε} (L : Loop α β ρ) : List α → End ε → β → Option (Except ε ρ)
  | [], .done, b => some (.ok (L.done b))
  | [], .err e, _ => some (.error e)
  | [], .fuel, _ => none
  | a :: l, e, b =>
    match L.body b a with
    | .cont b' => L.listEndFrom l e b'
    | .brk r => some (.ok r)

def Res.val {ρ ε σ} : Res ρ ε σ → Option (Except ε ρ)
  | .ok r _ => some (.ok r) | .err e _ => some (.error e) | .fuel => none

/-! ## the natives -/

/-- the error classes the natives themselves raise -/
inductive NErr | notFound | outOfRange
  deriving DecidableEq, Repr

section natives
variable {α β : Type}

/-- `NotFoundError` for an absent element -/
def orNotFound : Option α → Except NErr α
  | some a => .ok a
  | none => .error .notFound

/-- `-1` for an absent index -/
def idxOrMinus1 : Option Nat → Int
  | some k => k
  | none => -1

/-- left fold seeded with the first element; `none` (the `Undefined` sentinel) on the empty list -/
def reduceSpec (g : α → α → α) : List α → Option α
  | [] => none
  | a :: t => some (t.foldl g a)

/-- `map` -/
def mapL (f : α → β) : Loop α (List β) (List β) :=
  ⟨[], fun acc a => .cont (acc ++ [f a]), id⟩

/-- `filter` -/
def filterL (p : α → Bool) : Loop α (List α) (List α) :=
  ⟨[], fun acc a => .cont (if p a then acc ++ [a] else acc), id⟩

/-- `reject` -/
def rejectL (p : α → Bool) : Loop α (List α) (List α) :=
  ⟨[], fun acc a => .cont (if !p a then acc ++ [a] else acc), id⟩

/-- `count` -/
def countL (p : α → Bool) : Loop α Nat Nat :=
  ⟨0, fun c a => .cont (if p a then c + 1 else c), id⟩

/-- `any` -/
def anyL (p : α → Bool) : Loop α Unit Bool :=
  ⟨(), fun _ a => if p a then .brk true else .cont (), fun _ => false⟩

/-- `every` -/
def everyL (p : α → Bool) : Loop α Unit Bool :=
  ⟨(), fun _ a => if !p a then .brk false else .cont (), fun _ => true⟩

/-- `find` (`NotFoundError` when nothing matches) -/
def findL (p : α → Bool) : Loop α Unit (Except NErr α) :=
  ⟨(), fun _ a => if p a then .brk (.ok a) else .cont (), fun _ => .error .notFound⟩

/-- `try_find` -/
def tryFindL (p : α → Bool) : Loop α Unit (Option α) :=
  ⟨(), fun _ a => if p a then .brk (some a) else .cont (), fun _ => none⟩

/-- `index_of` (`-1` when absent) -/
def indexOfL [BEq α] (v : α) : Loop α Int Int :=
  ⟨0, fun i a => if a == v then .brk i else .cont (i + 1), fun _ => -1⟩

/-- `find_index` -/
def findIndexL (p : α → Bool) : Loop α Int Int :=
  ⟨0, fun i a => if p a then .brk i else .cont (i + 1), fun _ => -1⟩

/-- `contains` -/
def containsL [BEq α] (v : α) : Loop α Unit Bool :=
  ⟨(), fun _ a => if a == v then .brk true else .cont (), fun _ => false⟩

/-- `is_empty` -/
def isEmptyL : Loop α Unit Bool :=
  ⟨(), fun _ _ => .brk false, fun _ => true⟩

/-- `first` -/
def firstL : Loop α Unit (Except NErr α) :=
  ⟨(), fun _ a => .brk (.ok a), fun _ => .error .notFound⟩

/-- `try_first` -/
def tryFirstL : Loop α Unit (Option α) :=
  ⟨(), fun _ a => .brk (some a), fun _ => none⟩

/-- `last`: `var last value.Value` starts as the `Undefined` sentinel (`none`) -/
def lastL : Loop α (Option α) (Except NErr α) :=
  ⟨none, fun _ a => .cont (some a), fun o => match o with | some a => .ok a | none => .error .notFound⟩

/-- `try_last` -/
def tryLastL : Loop α (Option α) (Option α) :=
  ⟨none, fun _ a => .cont (some a), id⟩

/-- `take n` for `n ≥ 0` (the counter is tested *after* the next element was pulled) -/
def takeL (n : Int) : Loop α (Int × List α) (List α) :=
  ⟨(n, []), fun (c, acc) a => if c ≤ 0 then .brk acc else .cont (c - 1, acc ++ [a]), fun (_, acc) => acc⟩

/-- `drop n` for `n ≥ 0` -/
def dropL (n : Int) : Loop α (Int × List α) (List α) :=
  ⟨(n, []), fun (c, acc) a => if c > 0 then .cont (c - 1, acc) else .cont (c, acc ++ [a]), fun (_, acc) => acc⟩

/-- `take_while` -/
def takeWhileL (p : α → Bool) : Loop α (List α) (List α) :=
  ⟨[], fun acc a => if !p a then .brk acc else .cont (acc ++ [a]), id⟩

/-- `drop_while` (`collect` flag) -/
def dropWhileL (p : α → Bool) : Loop α (Bool × List α) (List α) :=
  ⟨(false, []), fun (collect, acc) a =>
      if collect then .cont (true, acc ++ [a])
      else if p a then .cont (false, acc)
      else .cont (true, acc ++ [a]),
    fun (_, acc) => acc⟩

/-- `reduce`: the accumulator starts as the `Undefined` sentinel; on an empty iterable the
sentinel itself is returned (`none` here) -/
def reduceL (g : α → α → α) : Loop α (Option α) (Option α) :=
  ⟨none, fun o a => .cont (match o with | none => some a | some acc => some (g acc a)), id⟩

/-- `fold` -/
def foldL (init : β) (g : β → α → β) : Loop α β β :=
  ⟨init, fun acc a => .cont (g acc a), id⟩

/-- `to_list` / `to_tuple` -/
def toListL : Loop α (List α) (List α) :=
  ⟨[], fun acc a => .cont (acc ++ [a]), id⟩

/-- `length` (`Iterable::Base`) -/
def lengthL : Loop α Nat Nat :=
  ⟨0, fun c _ => .cont (c + 1), id⟩

/-- the argument check in front of `take` / `drop` -/
def checkCount (n : Int) : Except NErr Unit := if n < 0 then .error .outOfRange else .ok ()

end natives

/-! ## concrete iterators -/

/-- a list iterator (lists, tuples, sets in slot order, closed channels, generators that yield a
fixed sequence): the state is what is left -/
def listIter (α : Type) : Iterator (List α) α Empty :=
  ⟨fun s => match s with | [] => .stop [] | a :: r => .yield a r⟩

end Elk.Iter
