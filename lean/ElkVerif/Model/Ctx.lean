/-
Model of the checker's *context discipline* (C12): `Checker.checkMethod`
(types/checker/method.go:1131-1327) checks a method body — and every closure literal
(checker.go checkClosureLiteralNode → checkMethod) — inside the context of the enclosing
construct. It follows the pattern save / set / body / restore:

```go
prevCatchScopes := c.catchScopes;  c.catchScopes = nil
prevFlags := c.flags                              // (before hasDefer is cleared)
prevHasDefer := c.hasDefer();      c.setHasDefer(false)
prevReturnType := c.returnType;    prevThrowType := c.throwType
prevMode := c.mode
push local env (nested for closures, isolated for methods);  defer c.popLocalEnv()
… c.mode = …; inference/generator flags; pushCatchScope(throwType); c.returnType = …; c.throwType = …
c.checkStatements(body)
checkedMethod.SetHasDefer(c.hasDefer())
c.setHasDefer(prevHasDefer); c.returnType = prevReturnType; c.throwType = prevThrowType
c.mode = prevMode; c.flags = prevFlags; c.catchScopes = prevCatchScopes
```

Two earlier versions of the function are kept as `Variant`s: `preE47324a` reset
`returnType/throwType` to nil instead of restoring them (the defect quoted in the property), and
`preDeferFix` took `prevFlags` AFTER clearing `hasDefer`, so the final `c.flags = prevFlags`
cleared the enclosing method's `hasDefer` (found by this check: a `defer` followed by an unused
closure never ran). Core Lean only.
-/
namespace Elk.Ctx

structure Flags where
  hasDefer : Bool
  generator : Bool
  inferReturn : Bool
  inferThrow : Bool
  unhygienic : Bool
  other : Nat            -- the remaining bits of the bit field
deriving DecidableEq, Repr

abbrev TypeId := Nat

structure Ctx where
  mode : Nat
  flags : Flags
  returnType : Option TypeId       -- `nil` = none
  throwType : Option TypeId
  catchScopes : List TypeId
  localEnvs : List Nat             -- stack of local environments (an id each)
deriving DecidableEq, Repr

structure MethodInfo where
  isClosure : Bool
  isInit : Bool
  isMacro : Bool
  isGenerator : Bool
  returnType : Option TypeId
  throwType : Option TypeId
deriving DecidableEq, Repr

inductive Variant where
  | current | preE47324a | preDeferFix
deriving DecidableEq, Repr

def modeOf (m : MethodInfo) : Nat := if m.isInit then 9 else if m.isMacro then 8 else 7

/-- `checkMethod`; `body` is `checkStatements(body)` seen as an arbitrary context transformer -/
def checkMethod (v : Variant) (body : Ctx → Ctx) (m : MethodInfo) (c : Ctx) : Ctx :=
  let prevCatchScopes := c.catchScopes
  let c := { c with catchScopes := [] }
  -- `prevFlags := c.flags`: before (current) or after (preDeferFix) `setHasDefer(false)`
  let prevFlagsEarly := c.flags
  let prevHasDefer := c.flags.hasDefer
  let c := { c with flags := { c.flags with hasDefer := false } }
  let prevFlagsLate := c.flags
  let prevFlags := match v with | .preDeferFix => prevFlagsLate | _ => prevFlagsEarly
  let prevReturnType := c.returnType
  let prevThrowType := c.throwType
  let prevMode := c.mode
  -- pushNestedLocalEnv / pushIsolatedLocalEnv; `defer c.popLocalEnv()`
  let c := { c with localEnvs := (if m.isClosure then 1 else 0) :: c.localEnvs }
  -- set
  let c := { c with
    catchScopes := (match m.throwType with | some t => t :: c.catchScopes | none => c.catchScopes),
    flags := { c.flags with
      inferReturn := c.flags.inferReturn || (m.isClosure && m.returnType.isNone),
      inferThrow := c.flags.inferThrow || (m.isClosure && m.throwType.isNone),
      generator := m.isGenerator },
    mode := modeOf m,
    returnType := m.returnType,
    throwType := m.throwType }
  -- body
  let c := body c
  -- restore
  let c := { c with flags := { c.flags with hasDefer := prevHasDefer } }
  let c := match v with
    | .preE47324a => { c with returnType := none, throwType := none }
    | _ => { c with returnType := prevReturnType, throwType := prevThrowType }
  let c := { c with mode := prevMode, flags := prevFlags, catchScopes := prevCatchScopes }
  -- deferred popLocalEnv
  { c with localEnvs := c.localEnvs.tail }

/-- the hypothesis on bodies: statements leave the local-environment stack as they found it
(every push in `checkStatements` is paired with a pop) -/
def Balanced (body : Ctx → Ctx) : Prop := ∀ x, (body x).localEnvs = x.localEnvs

end Elk.Ctx
