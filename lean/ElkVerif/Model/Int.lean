/-!
# Model of Elk's `Int` (C06, C09 helpers): `value/small_int.go`, `value/big_int.go`, dispatch in `value/value.go`

`IntV = small (BitVec 64) | big Int`.  A `big` may hold any integer: nothing in the Go type
`*BigInt` forces normalisation, the code has to do it operation by operation (`IsInt64` tests).
Go `int` arithmetic (64-bit, wrapping) is `BitVec 64`; `math/big` is `Int`:

  big.Add/Sub/Mul/Neg      → `+ - * -`
  big.Quo / QuoRem         → `Int.tdiv` / `Int.tmod`   (truncated)
  big.Div / Mod            → `/` , `%` on `Int` (Euclidean, `Int.ediv`/`Int.emod`)
  big.Lsh x n / Rsh x n    → `x <<< n` / `x >>> n` (floor)
  big.And/Or/Xor/AndNot/Not→ `land/lor/lxor/landNot/Int.not` below (two's complement, Go's own case split)
  big.Exp x y nil          → `bigExp` (1 for y ≤ 0)
  x.IsInt64()              → `fits64`

Every definition names the Go function it mirrors.  Core Lean only (linked into `elkmodel`).
-/
namespace Elk.IntM

abbrev I64 := BitVec 64

inductive IntV where
  | small (v : I64)
  | big (z : Int)
  deriving DecidableEq, Repr

/-- the integer a value denotes -/
def IntV.den : IntV → Int
  | .small v => v.toInt
  | .big z => z

/-- `(*big.Int).IsInt64` -/
def fits64 (z : Int) : Bool := decide (-(2 ^ 63 : Int) ≤ z) && decide (z < (2 ^ 63 : Int))

/-- canonical representation: a `big` never holds a value that fits a machine word -/
def IntV.Normal : IntV → Prop
  | .small _ => True
  | .big z => fits64 z = false

instance : DecidablePred IntV.Normal := fun v => by
  cases v <;> simp only [IntV.Normal] <;> infer_instance

/-- `SmallInt(x.Int64())` of a `big.Int` (wraps when it does not fit) -/
def toSmall (z : Int) : I64 := BitVec.ofInt 64 z

/-- the recurring tail `if r.IsSmallInt() { return r.ToSmallInt().ToValue() }; return Ref(r)` -/
def ofBig (z : Int) : IntV := if fits64 z then .small (toSmall z) else .big z

def minI64 : I64 := BitVec.intMin 64

/-! ## two's-complement bitwise operations of `math/big` (same case split as `big.Int.And/Or/Xor`) -/

/-- `m &^ n` on naturals -/
def natAndNot (m n : Nat) : Nat := Nat.bitwise (fun a b => a && !b) m n

/-- `big.Int.And` -/
def land : Int → Int → Int
  | .ofNat m, .ofNat n => Int.ofNat (m &&& n)
  | .ofNat m, .negSucc n => Int.ofNat (natAndNot m n)
  | .negSucc m, .ofNat n => Int.ofNat (natAndNot n m)
  | .negSucc m, .negSucc n => Int.negSucc (m ||| n)

/-- `big.Int.Or` -/
def lor : Int → Int → Int
  | .ofNat m, .ofNat n => Int.ofNat (m ||| n)
  | .ofNat m, .negSucc n => Int.negSucc (natAndNot n m)
  | .negSucc m, .ofNat n => Int.negSucc (natAndNot m n)
  | .negSucc m, .negSucc n => Int.negSucc (m &&& n)

/-- `big.Int.Xor` -/
def lxor : Int → Int → Int
  | .ofNat m, .ofNat n => Int.ofNat (m ^^^ n)
  | .ofNat m, .negSucc n => Int.negSucc (m ^^^ n)
  | .negSucc m, .ofNat n => Int.negSucc (m ^^^ n)
  | .negSucc m, .negSucc n => Int.ofNat (m ^^^ n)

/-- `big.Int.AndNot` : `x &^ y` -/
def landNot (x y : Int) : Int := land x (~~~y)

/-- bit `i` of the infinite two's-complement expansion -/
def tbit : Int → Nat → Bool
  | .ofNat m, i => m.testBit i
  | .negSucc m, i => !m.testBit i

/-- `big.Int.Exp(x, y, nil)`: `x**y`, and 1 for `y ≤ 0` -/
def bigExp (x y : Int) : Int := if y ≤ 0 then 1 else x ^ y.toNat

/-! ## results -/

inductive Res where
  | val (v : IntV)
  | bool (b : Bool)
  | zeroDiv          -- ZeroDivisionError
  | goPanic          -- a Go runtime panic (negative shift count)
  deriving DecidableEq, Repr

/-! ## SmallInt: overflow predicates (value/small_int.go) -/

/-- `SmallInt.AddOverflow`: `c := a + b; ok = (c > a) == (b > 0)` -/
def addOverflow (a b : I64) : I64 × Bool :=
  let c := a + b
  (c, (BitVec.slt a c) == (BitVec.slt 0#64 b))

/-- `SmallInt.SubtractOverflow`: `c := a - b; ok = (c < a) == (b > 0)` -/
def subOverflow (a b : I64) : I64 × Bool :=
  let c := a - b
  (c, (BitVec.slt c a) == (BitVec.slt 0#64 b))

/-- `SmallInt.MultiplyOverflow` -/
def mulOverflow (a b : I64) : I64 × Bool :=
  if a == 0#64 || b == 0#64 then (0#64, true)
  else
    let c := a * b
    if (BitVec.slt c 0#64) == ((BitVec.slt a 0#64) != (BitVec.slt b 0#64)) then
      if BitVec.sdiv c b == a then (c, true) else (c, false)
    else (c, false)

/-- `SmallInt.DivideOverflow`: the quotient overflows only for `MinSmallInt / -1` -/
def divOverflow (a b : I64) : I64 × Bool :=
  if b == 0#64 then (0#64, false)
  else if a == minI64 && b == -1#64 then (BitVec.sdiv a b, false)
  else (BitVec.sdiv a b, true)

/-! ## SmallInt receiver × {SmallInt, BigInt} operand -/
namespace S

/-- `SmallInt.AddSmallInt` -/
def addSmall (i o : I64) : IntV :=
  let (r, ok) := addOverflow i o
  if ok then .small r else .big (i.toInt + o.toInt)

/-- `SmallInt.AddBigInt` -/
def addBig (i : I64) (z : Int) : IntV := ofBig (i.toInt + z)

/-- `SmallInt.SubtractSmallInt` -/
def subSmall (i o : I64) : IntV :=
  let (r, ok) := subOverflow i o
  if ok then .small r else .big (i.toInt - o.toInt)

/-- `SmallInt.SubtractBigInt` -/
def subBig (i : I64) (z : Int) : IntV := ofBig (i.toInt - z)

/-- `SmallInt.MultiplySmallInt` -/
def mulSmall (i o : I64) : IntV :=
  let (r, ok) := mulOverflow i o
  if ok then .small r else .big (i.toInt * o.toInt)

/-- `SmallInt.MultiplyBigInt` -/
def mulBig (i : I64) (z : Int) : IntV := ofBig (i.toInt * z)

/-- `SmallInt.DivideSmallInt` -/
def divSmall (i o : I64) : Res :=
  if o == 0#64 then .zeroDiv
  else
    let (r, ok) := divOverflow i o
    if ok then .val (.small r) else .val (.big (Int.tdiv i.toInt o.toInt))

/-- `SmallInt.DivideBigInt` -/
def divBig (i : I64) (z : Int) : Res :=
  if z = 0 then .zeroDiv else .val (ofBig (Int.tdiv i.toInt z))

/-- `SmallInt.ModuloSmallInt` -/
def modSmall (i o : I64) : Res :=
  if o == 0#64 then .zeroDiv else .val (.small (BitVec.srem i o))

/-- `SmallInt.ModuloBigInt`: a divisor outside the word range is larger in magnitude than any
word, except `2^63` against `MinSmallInt` -/
def modBig (i : I64) (z : Int) : Res :=
  if z = 0 then .zeroDiv
  else if fits64 z then .val (.small (BitVec.srem i (toSmall z)))
  else if i == minI64 && z.natAbs == 2 ^ 63 then .val (.small 0#64)
  else .val (.small i)

/-- `SmallInt.ExponentiateSmallInt` -/
def powSmall (i o : I64) : IntV := ofBig (bigExp i.toInt o.toInt)

/-- `SmallInt.ExponentiateBigInt` -/
def powBig (i : I64) (z : Int) : IntV := ofBig (bigExp i.toInt z)

/-- `SmallInt.NegateVal` -/
def neg (i : I64) : IntV := if i == minI64 then .big (-(i.toInt)) else .small (-i)

/-- `SmallInt.Increment` -/
def inc (i : I64) : IntV :=
  let (r, ok) := addOverflow i 1#64
  if ok then .small r else .big (i.toInt + 1)

/-- `SmallInt.Decrement` -/
def dec (i : I64) : IntV :=
  let (r, ok) := subOverflow i 1#64
  if ok then .small r else .big (i.toInt - 1)

/-- `SmallInt.BitwiseNot` -/
def not (i : I64) : IntV := .small (~~~i)

/-- `rightBitshiftSmallInt[SmallInt]` -/
def rshCore (i o : I64) : Res :=
  if BitVec.slt o 0#64 then .val (.small 0#64) else .val (.small (BitVec.sshiftRight i o.toNat))

/-- the test `other <= bitsize && !((i < 0 && comp != -1) || (i > 0 && comp != 0))` of
`leftBitshiftSmallInt`, `comp := i >> (bitsize - other)` -/
def lshInWord (i o : I64) : Bool :=
  if BitVec.sle o 63#64 then
    let comp := BitVec.sshiftRight i (63#64 - o).toNat
    !((BitVec.slt i 0#64 && comp != -1#64) || (BitVec.slt 0#64 i && comp != 0#64))
  else false

/-- `leftBitshiftSmallInt[SmallInt]`: counts up to 63 stay in a word when the complementary
shift shows that only sign bits are shifted out; everything else goes through `big.Int.Lsh`
and `Normalize` -/
def lshCore (i o : I64) : Res :=
  if BitVec.slt o 0#64 then .val (.small 0#64)
  else if lshInWord i o then .val (.small (i <<< o.toNat)) else .val (ofBig (i.toInt <<< o.toNat))

/-- `SmallInt.LeftBitshiftSmallInt` -/
def lshSmall (i o : I64) : Res :=
  if BitVec.slt o 0#64 then rshCore i (-o) else lshCore i o

/-- `SmallInt.RightBitshiftSmallInt` -/
def rshSmall (i o : I64) : Res :=
  if BitVec.slt o 0#64 then lshCore i (-o) else .val (.small (BitVec.sshiftRight i o.toNat))

/-- `SmallInt.LeftBitshiftBigInt` (an operand that does not fit a word gives 0) -/
def lshBig (i : I64) (z : Int) : Res :=
  if fits64 z then
    let o := toSmall z
    if BitVec.slt o 0#64 then rshCore i (-o) else lshCore i o
  else .val (.small 0#64)

/-- `SmallInt.RightBitshiftBigInt` -/
def rshBig (i : I64) (z : Int) : Res :=
  if fits64 z then
    let o := toSmall z
    if BitVec.slt o 0#64 then lshCore i (-o) else .val (.small (BitVec.sshiftRight i o.toNat))
  else .val (.small 0#64)

/-- `SmallInt.BitwiseAndBigInt` etc. -/
def andBig (i : I64) (z : Int) : IntV := ofBig (land i.toInt z)
def orBig (i : I64) (z : Int) : IntV := ofBig (lor i.toInt z)
def xorBig (i : I64) (z : Int) : IntV := ofBig (lxor i.toInt z)
def andNotBig (i : I64) (z : Int) : IntV := ofBig (landNot i.toInt z)

/-- `SmallInt.Cmp` -/
def cmp (x y : I64) : Int := if BitVec.slt y x then 1 else if BitVec.slt x y then -1 else 0

/-- `SmallInt.IsEven`: `i%2 == 0` -/
def isEven (i : I64) : Bool := BitVec.srem i 2#64 == 0#64
/-- `SmallInt.IsOdd`: `i%2 != 0` -/
def isOdd (i : I64) : Bool := BitVec.srem i 2#64 != 0#64

end S

/-- `(*big.Int).Cmp` -/
def bigCmp (x y : Int) : Int := if x < y then -1 else if x = y then 0 else 1

/-! ## BigInt receiver -/
namespace B

def addBig (z w : Int) : IntV := ofBig (z + w)
def addSmall (z : Int) (o : I64) : IntV := ofBig (z + o.toInt)
def subBig (z w : Int) : IntV := ofBig (z - w)
def subSmall (z : Int) (o : I64) : IntV := ofBig (z - o.toInt)
def mulBig (z w : Int) : IntV := ofBig (z * w)
def mulSmall (z : Int) (o : I64) : IntV := ofBig (z * o.toInt)

/-- `BigInt.DivideBigInt` -/
def divBig (z w : Int) : Res := if w = 0 then .zeroDiv else .val (ofBig (Int.tdiv z w))
/-- `BigInt.DivideSmallInt` -/
def divSmall (z : Int) (o : I64) : Res :=
  if o == 0#64 then .zeroDiv else .val (ofBig (Int.tdiv z o.toInt))
/-- `BigInt.ModuloBigInt` (`QuoRem`) -/
def modBig (z w : Int) : Res := if w = 0 then .zeroDiv else .val (ofBig (Int.tmod z w))
/-- `BigInt.ModuloSmallInt` -/
def modSmall (z : Int) (o : I64) : Res :=
  if o == 0#64 then .zeroDiv else .val (ofBig (Int.tmod z o.toInt))

def powBig (z w : Int) : IntV := ofBig (bigExp z w)
def powSmall (z : Int) (o : I64) : IntV := ofBig (bigExp z o.toInt)

/-- `BigInt.Negate` + `Normalize` -/
def neg (z : Int) : IntV := ofBig (-z)
/-- `BigInt.Increment` + `Normalize` -/
def inc (z : Int) : IntV := ofBig (z + 1)
/-- `BigInt.Decrement` -/
def dec (z : Int) : IntV := ofBig (z - 1)
/-- `BigInt.BitwiseNot` (`value.BitwiseNotVal` wraps it in `Ref`: no normalisation) -/
def not (z : Int) : IntV := .big (~~~z)

/-- `rightBitshiftBigInt[SmallInt]` -/
def rshCore (z : Int) (o : I64) : Res :=
  if BitVec.slt o 0#64 then .val (.small 0#64) else .val (ofBig (z >>> o.toNat))

/-- `leftBitshiftBigInt[SmallInt]` -/
def lshCore (z : Int) (o : I64) : Res :=
  if BitVec.slt o 0#64 then .val (.small 0#64) else .val (.big (z <<< o.toNat))

/-- `BigInt.RightBitshiftSmallInt` -/
def rshSmall (z : Int) (o : I64) : Res :=
  if BitVec.slt o 0#64 then lshCore z (-o) else rshCore z o
/-- `BigInt.LeftBitshiftSmallInt` -/
def lshSmall (z : Int) (o : I64) : Res :=
  if BitVec.slt o 0#64 then rshCore z (-o) else lshCore z o
/-- `BigInt.RightBitshiftBigInt` -/
def rshBig (z w : Int) : Res :=
  if fits64 w then rshSmall z (toSmall w) else .val (.small 0#64)
/-- `BigInt.LeftBitshiftBigInt` -/
def lshBig (z w : Int) : Res :=
  if fits64 w then lshSmall z (toSmall w) else .val (.small 0#64)

def andBig (z w : Int) : IntV := ofBig (land z w)
def andSmall (z : Int) (o : I64) : IntV := ofBig (land z o.toInt)
def orBig (z w : Int) : IntV := ofBig (lor z w)
def orSmall (z : Int) (o : I64) : IntV := ofBig (lor z o.toInt)
def xorBig (z w : Int) : IntV := ofBig (lxor z w)
def xorSmall (z : Int) (o : I64) : IntV := ofBig (lxor z o.toInt)
def andNotBig (z w : Int) : IntV := ofBig (landNot z w)
def andNotSmall (z : Int) (o : I64) : IntV := ofBig (landNot z o.toInt)

/-- `BigInt.IsEven`: `Mod(x, 2) == 0` (Euclidean) -/
def isEven (z : Int) : Bool := z % 2 == 0
def isOdd (z : Int) : Bool := z % 2 != 0

end B

/-! ## operators and the two dispatch families

`val`  : `value.AddVal(l, r)` → `SmallInt.AddVal` / `BigInt.AddVal` → pair method.  The VM's generic
         opcodes, the typed `*_INT` opcodes (`vm/thread.go opAddInt …`) and the constant folder
         (`compiler/resolve.go`) all enter here.
`ints` : `value.AddInts(l, r)` → `SmallInt.AddInt` / `BigInt.AddInt` → pair method.  Called by the
         code the Go backend generates (C09). -/

inductive Op where
  | add | sub | mul | div | mod | pow | shl | shr | and | or | xor | andNot
  | cmp | gt | ge | lt | le | eq
  deriving DecidableEq, Repr

inductive UOp where
  | neg | not | inc | dec | even | odd
  deriving DecidableEq, Repr

/-- comparison result from the three-way comparison, as each `GreaterThan…` method computes it -/
def cmpInt : IntV → IntV → Int
  | .small x, .small y => S.cmp x y
  | .small x, .big w => bigCmp x.toInt w
  | .big z, .small y => bigCmp z y.toInt
  | .big z, .big w => bigCmp z w

/-- `value.<Op>Val` on two Ints -/
def binVal : Op → IntV → IntV → Res
  | .add, .small i, .small o => .val (S.addSmall i o)
  | .add, .small i, .big w => .val (S.addBig i w)
  | .add, .big z, .small o => .val (B.addSmall z o)
  | .add, .big z, .big w => .val (B.addBig z w)
  | .sub, .small i, .small o => .val (S.subSmall i o)
  | .sub, .small i, .big w => .val (S.subBig i w)
  | .sub, .big z, .small o => .val (B.subSmall z o)
  | .sub, .big z, .big w => .val (B.subBig z w)
  | .mul, .small i, .small o => .val (S.mulSmall i o)
  | .mul, .small i, .big w => .val (S.mulBig i w)
  | .mul, .big z, .small o => .val (B.mulSmall z o)
  | .mul, .big z, .big w => .val (B.mulBig z w)
  | .div, .small i, .small o => S.divSmall i o
  | .div, .small i, .big w => S.divBig i w
  | .div, .big z, .small o => B.divSmall z o
  | .div, .big z, .big w => B.divBig z w
  | .mod, .small i, .small o => S.modSmall i o
  | .mod, .small i, .big w => S.modBig i w
  | .mod, .big z, .small o => B.modSmall z o
  | .mod, .big z, .big w => B.modBig z w
  | .pow, .small i, .small o => .val (S.powSmall i o)
  | .pow, .small i, .big w => .val (S.powBig i w)
  | .pow, .big z, .small o => .val (B.powSmall z o)
  | .pow, .big z, .big w => .val (B.powBig z w)
  | .shl, .small i, .small o => S.lshSmall i o
  | .shl, .small i, .big w => S.lshBig i w
  | .shl, .big z, .small o => B.lshSmall z o
  | .shl, .big z, .big w => B.lshBig z w
  | .shr, .small i, .small o => S.rshSmall i o
  | .shr, .small i, .big w => S.rshBig i w
  | .shr, .big z, .small o => B.rshSmall z o
  | .shr, .big z, .big w => B.rshBig z w
  | .and, .small i, .small o => .val (.small (i &&& o))
  | .and, .small i, .big w => .val (S.andBig i w)
  | .and, .big z, .small o => .val (B.andSmall z o)
  | .and, .big z, .big w => .val (B.andBig z w)
  | .or, .small i, .small o => .val (.small (i ||| o))
  | .or, .small i, .big w => .val (S.orBig i w)
  | .or, .big z, .small o => .val (B.orSmall z o)
  | .or, .big z, .big w => .val (B.orBig z w)
  | .xor, .small i, .small o => .val (.small (i ^^^ o))
  | .xor, .small i, .big w => .val (S.xorBig i w)
  | .xor, .big z, .small o => .val (B.xorSmall z o)
  | .xor, .big z, .big w => .val (B.xorBig z w)
  | .andNot, .small i, .small o => .val (.small (i &&& ~~~o))
  | .andNot, .small i, .big w => .val (S.andNotBig i w)
  | .andNot, .big z, .small o => .val (B.andNotSmall z o)
  | .andNot, .big z, .big w => .val (B.andNotBig z w)
  | .cmp, a, b => .val (.small (BitVec.ofInt 64 (cmpInt a b)))
  | .gt, a, b => .bool (cmpInt a b == 1)
  | .ge, a, b => .bool (decide (cmpInt a b ≥ 0))
  | .lt, a, b => .bool (cmpInt a b == -1)
  | .le, a, b => .bool (decide (cmpInt a b ≤ 0))
  | .eq, a, b => .bool (cmpInt a b == 0)

/-- `BigInt.BitwiseAndNotSmallInt` / `BitwiseAndNotBigInt`: the methods behind `BitwiseAndNotInt`
(distinct Go code from the inline bodies of `BitwiseAndNotVal`) -/
def B.andNotSmallI (z : Int) (o : I64) : IntV := ofBig (landNot z o.toInt)
def B.andNotBigI (z w : Int) : IntV := ofBig (landNot z w)

/-- `value.<Op>Ints(l, r)` → `SmallInt.<Op>Int` / `BigInt.<Op>Int`: the helpers the Go backend's
output calls.  Both operands are known to be Ints, the dispatch is on `IsSmallInt()` only. -/
def binInts : Op → IntV → IntV → Res
  | .add, .small i, .small o => .val (S.addSmall i o)
  | .add, .small i, .big w => .val (S.addBig i w)
  | .add, .big z, .small o => .val (B.addSmall z o)
  | .add, .big z, .big w => .val (B.addBig z w)
  | .sub, .small i, .small o => .val (S.subSmall i o)
  | .sub, .small i, .big w => .val (S.subBig i w)
  | .sub, .big z, .small o => .val (B.subSmall z o)
  | .sub, .big z, .big w => .val (B.subBig z w)
  | .mul, .small i, .small o => .val (S.mulSmall i o)
  | .mul, .small i, .big w => .val (S.mulBig i w)
  | .mul, .big z, .small o => .val (B.mulSmall z o)
  | .mul, .big z, .big w => .val (B.mulBig z w)
  | .div, .small i, .small o => S.divSmall i o
  | .div, .small i, .big w => S.divBig i w
  | .div, .big z, .small o => B.divSmall z o
  | .div, .big z, .big w => B.divBig z w
  | .mod, .small i, .small o => S.modSmall i o
  | .mod, .small i, .big w => S.modBig i w
  | .mod, .big z, .small o => B.modSmall z o
  | .mod, .big z, .big w => B.modBig z w
  | .pow, .small i, .small o => .val (S.powSmall i o)
  | .pow, .small i, .big w => .val (S.powBig i w)
  | .pow, .big z, .small o => .val (B.powSmall z o)
  | .pow, .big z, .big w => .val (B.powBig z w)
  | .shl, .small i, .small o => S.lshSmall i o
  | .shl, .small i, .big w => S.lshBig i w
  | .shl, .big z, .small o => B.lshSmall z o
  | .shl, .big z, .big w => B.lshBig z w
  | .shr, .small i, .small o => S.rshSmall i o
  | .shr, .small i, .big w => S.rshBig i w
  | .shr, .big z, .small o => B.rshSmall z o
  | .shr, .big z, .big w => B.rshBig z w
  | .and, .small i, .small o => .val (.small (i &&& o))
  | .and, .small i, .big w => .val (S.andBig i w)
  | .and, .big z, .small o => .val (B.andSmall z o)
  | .and, .big z, .big w => .val (B.andBig z w)
  | .or, .small i, .small o => .val (.small (i ||| o))
  | .or, .small i, .big w => .val (S.orBig i w)
  | .or, .big z, .small o => .val (B.orSmall z o)
  | .or, .big z, .big w => .val (B.orBig z w)
  | .xor, .small i, .small o => .val (.small (i ^^^ o))
  | .xor, .small i, .big w => .val (S.xorBig i w)
  | .xor, .big z, .small o => .val (B.xorSmall z o)
  | .xor, .big z, .big w => .val (B.xorBig z w)
  | .andNot, .small i, .small o => .val (.small (i &&& ~~~o))
  | .andNot, .small i, .big w => .val (S.andNotBig i w)
  | .andNot, .big z, .small o => .val (B.andNotSmallI z o)
  | .andNot, .big z, .big w => .val (B.andNotBigI z w)
  | .cmp, a, b => .val (.small (BitVec.ofInt 64 (cmpInt a b)))
  | .gt, a, b => .bool (cmpInt a b == 1)
  | .ge, a, b => .bool (decide (cmpInt a b ≥ 0))
  | .lt, a, b => .bool (cmpInt a b == -1)
  | .le, a, b => .bool (decide (cmpInt a b ≤ 0))
  | .eq, a, b => .bool (cmpInt a b == 0)

/-- `value.NegateVal`, `BitwiseNotVal`, `IncrementVal`, `DecrementVal`; `Int#is_even`, `Int#is_odd` -/
def unVal : UOp → IntV → Res
  | .neg, .small i => .val (S.neg i)
  | .neg, .big z => .val (B.neg z)
  | .not, .small i => .val (S.not i)
  | .not, .big z => .val (B.not z)
  | .inc, .small i => .val (S.inc i)
  | .inc, .big z => .val (B.inc z)
  | .dec, .small i => .val (S.dec i)
  | .dec, .big z => .val (B.dec z)
  | .even, .small i => .bool (S.isEven i)
  | .even, .big z => .bool (B.isEven z)
  | .odd, .small i => .bool (S.isOdd i)
  | .odd, .big z => .bool (B.isOdd z)

/-- `value.NegateInt`, `IncrementInt`, `DecrementInt` (`NegateInt` has its own body:
`l.NegateVal()` on a SmallInt, `l.Negate().Normalize()` on a BigInt) -/
def unInts : UOp → IntV → Res
  | .neg, .small i => .val (S.neg i)
  | .neg, .big z => .val (ofBig (-z))
  | .inc, .small i => .val (S.inc i)
  | .inc, .big z => .val (B.inc z)
  | .dec, .small i => .val (S.dec i)
  | .dec, .big z => .val (B.dec z)
  | op, a => unVal op a

/-! ## observations: inspect and the bytes fed to xxhash -/

/-- `SmallInt.Inspect` / `BigInt.Inspect`: decimal -/
def inspect (v : IntV) : String := toString v.den

/-- big-endian magnitude bytes, most significant first (`big.Int.Bytes`) -/
def natBytesBE (n : Nat) : List Nat :=
  let rec go (fuel n : Nat) (acc : List Nat) : List Nat :=
    match fuel with
    | 0 => acc
    | fuel + 1 => if n = 0 then acc else go fuel (n / 256) ((n % 256) :: acc)
  go (n + 1) n []

/-- bytes hashed by `SmallInt.Hash` (8 bytes little endian) and `BigInt.Hash` (`Bytes()`: magnitude, sign dropped) -/
def hashKey : IntV → List Nat
  | .small v => (List.range 8).map fun k => (v.toNat / 256 ^ k) % 256
  | .big z => natBytesBE z.natAbs

end Elk.IntM
