/-
Model of the local-environment chain of `types/checker/local.go` (C31).

Go side (as it is today):

  type localEnvironment struct { parent *localEnvironment; locals map[Symbol]*local; index int; typ localEnvType }
  c.localEnvs []*localEnvironment                       -- a stack; `currentLocalEnv` = last element
  pushNestedLocalEnv(typ)      parent = currentLocalEnv()
  pushMacroBoundaryLocalEnv()  parent = currentLocalEnv(), typ = macroBoundaryLocalEnvType
  pushIsolatedLocalEnv()       parent = nil, typ = default
  popLocalEnv()                drops the last element
  addLocal(name, l)            currentLocalEnv().locals[name] = l        (map assignment: overwrites)
  resolveLocal(name, unhygienic)  walks the parent links (loop mirrored below)

Because `parent` is always either nil or the environment that was on top of the stack when the
new one was pushed, the parent chain of the current environment is a prefix of the stack read
from the top: a `Frame` carries `hasParent` instead of a pointer and the stack is a `List Frame`
with the current environment at the head.

A `*local` is modelled by an opaque identity `LocalId` (the pointer); names are symbols (`Nat`).
Core Lean only.
-/
namespace Elk.Hygiene

/-- `localEnvType` -/
inductive EnvType where
  | default
  | macroBoundary
  | conditional
deriving DecidableEq, Repr, Inhabited

abbrev Name := Nat
abbrev LocalId := Nat

/-- one `localEnvironment`; `locals` is the Go map as an association list with unique keys -/
structure Frame where
  typ : EnvType
  hasParent : Bool
  locals : List (Name × LocalId)
deriving DecidableEq, Repr, Inhabited

/-- `c.localEnvs`, current environment first -/
abbrev Stack := List Frame

/-- Go map read `l.locals[name]` -/
def lookup (n : Name) : List (Name × LocalId) → Option LocalId
  | [] => none
  | (m, l) :: rest => if m = n then some l else lookup n rest

/-- Go map assignment `l.locals[name] = local` -/
def insert (n : Name) (l : LocalId) : List (Name × LocalId) → List (Name × LocalId)
  | [] => [(n, l)]
  | (m, x) :: rest => if m = n then (n, l) :: rest else (m, x) :: insert n l rest

/-- result of `resolveLocal`: the local and its `localContext` (`env` as the number of parent
links followed from the current environment, and `nestedInConditionalScope`) -/
structure Hit where
  loc : LocalId
  depth : Nat
  nested : Bool
deriving DecidableEq, Repr

/-- `localEnvironment.resolveLocal(name, unhygienic)`; `d` counts the links followed so far and
`nested` is the loop variable `nestedInConditionalScope`.

```go
for {
    if currentEnv == nil { return nil, nil }
    loc, ok := currentEnv.locals[nameSymbol]
    if ok { return loc, &localContext{env: currentEnv, nestedInConditionalScope: nested} }
    switch currentEnv.typ {
    case macroBoundaryLocalEnvType: if !unhygienic { return nil, nil }
    case conditionalLocalEnvType:   nested = true
    }
    currentEnv = currentEnv.parent
}
``` -/
def resolveFrom (n : Name) (unhyg : Bool) : Stack → Nat → Bool → Option Hit
  | [], _, _ => none
  | f :: rest, d, nested =>
    match lookup n f.locals with
    | some l => some ⟨l, d, nested⟩
    | none =>
      if f.typ = .macroBoundary ∧ unhyg = false then none
      else if f.hasParent then
        resolveFrom n unhyg rest (d + 1) (nested || decide (f.typ = .conditional))
      else none

def resolve (n : Name) (unhyg : Bool) (s : Stack) : Option Hit := resolveFrom n unhyg s 0 false

/-- the environment operations of the checker -/
inductive Op where
  | pushNested (t : EnvType)     -- `pushNestedLocalEnv` (t = default / conditional), `pushMacroBoundaryLocalEnv` (t = macroBoundary)
  | pushIsolated                 -- `pushIsolatedLocalEnv`
  | pop                          -- `popLocalEnv`
  | add (n : Name) (l : LocalId) -- `addLocal`
deriving DecidableEq, Repr

def Op.pushBoundary : Op := .pushNested .macroBoundary

/-- one operation; `none` = Go panic (index out of range on an empty `localEnvs`) -/
def step : Stack → Op → Option Stack
  | [], .pushNested _ => none            -- currentLocalEnv() on an empty stack
  | s@(_ :: _), .pushNested t => some (⟨t, true, []⟩ :: s)
  | s, .pushIsolated => some (⟨.default, false, []⟩ :: s)
  | [], .pop => none
  | _ :: s, .pop => some s
  | [], .add _ _ => none
  | f :: s, .add n l => some ({ f with locals := insert n l f.locals } :: s)

def run : List Op → Stack → Option Stack
  | [], s => some s
  | op :: ops, s =>
    match step s op with
    | some s' => run ops s'
    | none => none

/-- number of environments above the starting point after `ops`, starting with `k` above it;
`none` when an operation would touch (pop, or add a local to) an environment at or below the
starting point -/
def depthAfter : Nat → List Op → Option Nat
  | k, [] => some k
  | k, .pushNested _ :: ops => depthAfter (k + 1) ops
  | k, .pushIsolated :: ops => depthAfter (k + 1) ops
  | 0, .pop :: _ => none
  | k + 1, .pop :: ops => depthAfter k ops
  | 0, .add _ _ :: _ => none
  | k + 1, .add _ _ :: ops => depthAfter (k + 1) ops

/-- consistent renaming of the names bound in a frame -/
def Frame.rename (ρ : Name → Name) (f : Frame) : Frame :=
  { f with locals := f.locals.map fun (m, l) => (ρ m, l) }

def bindsName (n : Name) (f : Frame) : Bool := (lookup n f.locals).isSome

end Elk.Hygiene
