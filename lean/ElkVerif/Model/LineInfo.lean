/-
Model of `bytecode/line_info.go` (`LineInfoList`) and of the two places in
`compiler/bytecode_compiler.go` that edit a line table behind its back
(`prepLocals`: first entry grows; `removeBytes`: the entry covering `offset` shrinks).
Core Lean only. Mirrors the Go code line by line; Go `int` is modelled as `Int`
(no overflow: counts are bounded by the size of a function body).
-/
namespace Elk.LineInfo

structure Entry where
  line : Int
  count : Int
deriving Repr, DecidableEq, Inhabited

abbrev Table := List Entry

inductive Res (α : Type) where
  | ok (a : α)
  | panic            -- Go nil dereference / explicit panic
deriving Repr, DecidableEq

/-- `GetLineInfo`: walks the entries accumulating counts; first entry with `acc-1 ≥ i`. -/
def getInfoFrom (acc : Int) : Table → Int → Option Entry
  | [], _ => none
  | e :: rest, i =>
    let acc' := acc + e.count
    if acc' - 1 ≥ i then some e else getInfoFrom acc' rest i

def getInfo (t : Table) (i : Int) : Option Entry := getInfoFrom 0 t i

/-- `GetLineNumber`: -1 when not found. -/
def getLine (t : Table) (i : Int) : Int :=
  match getInfo t i with
  | some e => e.line
  | none => -1

/-- modify the last entry -/
def modifyLast (f : Entry → Entry) : Table → Table
  | [] => []
  | [e] => [f e]
  | e :: rest => e :: modifyLast f rest

/-- `AddLineNumber` -/
def addLine (t : Table) (line bytes : Int) : Table :=
  match t.getLast? with
  | some e => if e.line = line then modifyLast (fun e => { e with count := e.count + bytes }) t
              else t ++ [⟨line, bytes⟩]
  | none => t ++ [⟨line, bytes⟩]

/-- `AddBytesToLastLine` (nil dereference on an empty table) -/
def addLast (t : Table) (bytes : Int) : Res Table :=
  match t.getLast? with
  | some _ => .ok (modifyLast (fun e => { e with count := e.count + bytes }) t)
  | none => .panic

/-- `RemoveByte` -/
def removeByte (t : Table) : Res Table :=
  match t.getLast? with
  | none => .panic
  | some e => if e.count = 1 then .ok t.dropLast
              else .ok (modifyLast (fun e => { e with count := e.count - 1 }) t)

/-- `RemoveBytes count` (`for range count`: no iterations for count ≤ 0) -/
def removeBytes (t : Table) : Nat → Res Table
  | 0 => .ok t
  | n + 1 => match removeByte t with
    | .ok t' => removeBytes t' n
    | .panic => .panic

/-- `prepLocals`: the first entry, if any, grows by the inserted bytes. -/
def prep (t : Table) (bytes : Int) : Table :=
  match t with
  | [] => []
  | e :: rest => { e with count := e.count + bytes } :: rest

/-- modify the first entry that `getInfo` would return -/
def modifyAtFrom (acc : Int) (f : Entry → Entry) : Table → Int → Option Table
  | [], _ => none
  | e :: rest, i =>
    let acc' := acc + e.count
    if acc' - 1 ≥ i then some (f e :: rest)
    else (modifyAtFrom acc' f rest i).map (e :: ·)

/-- compiler `removeBytes(offset, count)`: `GetLineInfo(offset).InstructionCount -= count` -/
def removeAt (t : Table) (offset count : Int) : Res Table :=
  match modifyAtFrom 0 (fun e => { e with count := e.count - count }) t offset with
  | some t' => .ok t'
  | none => .panic

/-- The per-byte list of source lines a table denotes (the abstraction). -/
def flat : Table → List Int
  | [] => []
  | e :: rest => List.replicate e.count.toNat e.line ++ flat rest

/-- every run is non-empty -/
def Pos (t : Table) : Prop := ∀ e ∈ t, 1 ≤ e.count

/-- edit scripts, as the compiler issues them -/
inductive Edit where
  | add (line bytes : Int)
  | addLast (bytes : Int)
  | removeByte
  | removeBytes (n : Nat)
  | prep (bytes : Int)
  | removeAt (offset count : Int)
deriving Repr, DecidableEq

def step (t : Table) : Edit → Res Table
  | .add l b => .ok (addLine t l b)
  | .addLast b => addLast t b
  | .removeByte => removeByte t
  | .removeBytes n => removeBytes t n
  | .prep b => .ok (prep t b)
  | .removeAt o c => removeAt t o c

def run (t : Table) : List Edit → Res Table
  | [] => .ok t
  | e :: es => match step t e with
    | .ok t' => run t' es
    | .panic => .panic

end Elk.LineInfo
