/-
Model of the open-addressing tables of `vm/hash_map.go` (`HashMapOfValue*`; `HashRecordOfValue` is the
same struct) and `vm/hash_set.go` (`HashSetOfValue*`, the instance `V = Unit`).

* `Slot` — a `PairOfValue{Key, Value}` slot: empty (`Undefined, Undefined`), tombstone
  (`Undefined, True`; in the set: `DeletedHashSetValue`), or live.
* `Tbl` — `Table`, `Elements`, `OccupiedSlots`.
* `hash : K → Nat` (`vm.Hash`, an unsigned 64-bit value) and `eqv : K → K → Bool` (`vm.Equal`) are
  parameters; `veq : V → V → Bool` is `Equal` on values.
Mirrors the Go functions line by line.  Go `int` counters are `Nat`: `Elements--` happens only
after a live slot was found.  Core Lean only.
-/
namespace Elk.HashMap

inductive Slot (K V : Type) where
  | empty
  | tomb
  | live (k : K) (v : V)
deriving DecidableEq, Repr, Inhabited

structure Tbl (K V : Type) where
  slots : List (Slot K V)
  elements : Nat
  occupied : Nat
deriving DecidableEq, Repr

inductive Res (α : Type) where
  | ok (a : α)
  | panic          -- Go panic: "no room in target hashmap…", integer divide by zero
deriving DecidableEq, Repr

/-- what `HashMapOfValueGet` returns -/
inductive Got (V : Type) where
  | absent          -- `value.Undefined`
  | val (v : V)
deriving DecidableEq, Repr

section
variable {K V : Type} (hash : K → Nat) (eqv : K → K → Bool)

def Tbl.cap (t : Tbl K V) : Nat := t.slots.length

/-- `NewHashMapOfValue(capacity)` -/
def Tbl.new (capacity : Nat) : Tbl K V := ⟨List.replicate capacity .empty, 0, 0⟩

/-- `if index == capacity-1 { index = 0 } else { index++ }` -/
def next (cap i : Nat) : Nat := if i + 1 = cap then 0 else i + 1

/-- the `for` loop of `HashMapOfValueIndex`/`HashSetIndex`; it is left when `index` is back at
`startIndex`, i.e. after `capacity` iterations: `fuel` counts them down.  `deleted` is
`deletedIndex` (`none` = -1).  Result `none` = -1.
When every slot has been visited a remembered tombstone is returned (D7 fix); only a table
without any free slot answers -1. -/
def probe (slots : List (Slot K V)) (key : K) : Nat → Nat → Option Nat → Option Nat
  | 0, _, deleted => deleted
  | fuel + 1, i, deleted =>
    match slots[i]? with
    | none => none
    | some .empty =>
      match deleted with
      | some d => some d
      | none => some i
    | some .tomb =>
      match deleted with
      | some d => probe slots key fuel (next slots.length i) (some d)
      | none => probe slots key fuel (next slots.length i) (some i)
    | some (.live k _) =>
      if eqv k key then some i else probe slots key fuel (next slots.length i) deleted

/-- `HashMapOfValueIndex`: `hash % capacity` panics for an empty table -/
def index (t : Tbl K V) (key : K) : Res (Option Nat) :=
  if t.cap = 0 then .panic
  else .ok (probe eqv t.slots key t.cap (hash key % t.cap) none)

/-- `HashMapOfValueGet` -/
def get (t : Tbl K V) (key : K) : Res (Got V) :=
  if t.elements = 0 then .ok .absent
  else match index hash eqv t key with
    | .panic => .panic
    | .ok none => .ok .absent
    | .ok (some i) =>
      match t.slots[i]? with
      | some (.live _ v) => .ok (.val v)
      | _ => .ok .absent

/-- `HashMapOfValueContainsKey` -/
def containsKey (t : Tbl K V) (key : K) : Res Bool :=
  if t.elements = 0 then .ok false
  else match index hash eqv t key with
    | .panic => .panic
    | .ok none => .ok false
    | .ok (some i) =>
      match t.slots[i]? with
      | some (.live _ _) => .ok true
      | _ => .ok false

/-- `HashMapOfValueDelete` -/
def delete (t : Tbl K V) (key : K) : Res (Tbl K V × Bool) :=
  if t.elements = 0 then .ok (t, false)
  else match index hash eqv t key with
    | .panic => .panic
    | .ok none => .ok (t, false)
    | .ok (some i) =>
      match t.slots[i]? with
      | some (.live _ _) => .ok (⟨t.slots.set i .tomb, t.elements - 1, t.occupied⟩, true)
      | _ => .ok (t, false)

/-- the loop of `HashMapOfValueSetCapacity`: re-insert the live entries of the old table, in slot
order, into `acc` (which starts empty) -/
def reinsert (acc : Tbl K V) : List (Slot K V) → Res (Tbl K V)
  | [] => .ok acc
  | .live k v :: rest =>
    match index hash eqv acc k with
    | .panic => .panic
    | .ok none => .panic       -- "no room in target hashmap during resizing"
    | .ok (some i) => reinsert ⟨acc.slots.set i (.live k v), acc.elements + 1, acc.occupied + 1⟩ rest
  | _ :: rest => reinsert acc rest

/-- `HashMapOfValueSetCapacity` -/
def setCapacity (t : Tbl K V) (capacity : Nat) : Res (Tbl K V) :=
  if t.cap = capacity then .ok t
  else reinsert hash eqv (Tbl.new capacity) t.slots

/-- `HashMapOfValueSetWithMaxLoad`; the load factor is `num/den` (0.75 = 3/4, 1 = 1/1):
`float64(occupied) >= float64(capacity)*maxLoad` -/
def setWithMaxLoad (t : Tbl K V) (key : K) (val : V) (num den : Nat) : Res (Tbl K V) :=
  let t1 : Res (Tbl K V) :=
    if t.cap = 0 then setCapacity hash eqv t 5
    else if t.occupied * den ≥ t.cap * num then setCapacity hash eqv t (t.occupied * 2)
    else .ok t
  match t1 with
  | .panic => .panic
  | .ok t =>
    match index hash eqv t key with
    | .panic => .panic
    | .ok none => .panic     -- "no room in target hashmap when trying to add a new key"
    | .ok (some i) =>
      match t.slots[i]? with
      | some (.live _ _) => .ok ⟨t.slots.set i (.live key val), t.elements, t.occupied⟩
      | some .tomb => .ok ⟨t.slots.set i (.live key val), t.elements + 1, t.occupied⟩
      | some .empty => .ok ⟨t.slots.set i (.live key val), t.elements + 1, t.occupied + 1⟩
      | none => .panic

/-- `HashMapOfValueSet` -/
def set (t : Tbl K V) (key : K) (val : V) : Res (Tbl K V) := setWithMaxLoad hash eqv t key val 3 4

/-- the loop of `HashMapOfValueCopy`: store each live source entry at its index in the target;
the counters grow only for a slot that was free (`Elements`) / empty (`OccupiedSlots`). -/
def copyLoop (target : Tbl K V) : List (Slot K V) → Res (Tbl K V)
  | [] => .ok target
  | .live k v :: rest =>
    match index hash eqv target k with
    | .panic => .panic
    | .ok none => .panic       -- "no room in target hashmap during copy"
    | .ok (some i) =>
      match target.slots[i]? with
      | some (.live _ _) => copyLoop ⟨target.slots.set i (.live k v), target.elements, target.occupied⟩ rest
      | some .tomb => copyLoop ⟨target.slots.set i (.live k v), target.elements + 1, target.occupied⟩ rest
      | some .empty => copyLoop ⟨target.slots.set i (.live k v), target.elements + 1, target.occupied + 1⟩ rest
      | none => .panic
  | _ :: rest => copyLoop target rest

/-- `HashMapOfValueCopy(target, source)` -/
def copy (target source : Tbl K V) : Res (Tbl K V) :=
  let required := target.elements + source.elements
  let t1 : Res (Tbl K V) := if target.cap < required then setCapacity hash eqv target required else .ok target
  match t1 with
  | .panic => .panic
  | .ok t => copyLoop hash eqv t source.slots

/-- `HashMapOfValueConcat`: `x.Clone()` then `Copy(result, y)` -/
def concat (x y : Tbl K V) : Res (Tbl K V) := copy hash eqv x y

/-- `CloneHashMap(capacity)`: a new table of that capacity, then `Copy` -/
def cloneCap (t : Tbl K V) (capacity : Nat) : Res (Tbl K V) := copy hash eqv (Tbl.new capacity) t

/-- live entries in slot order (`All()`, iteration, `inspect`) -/
def entries : List (Slot K V) → List (K × V)
  | [] => []
  | .live k v :: rest => (k, v) :: entries rest
  | _ :: rest => entries rest

def Tbl.toList (t : Tbl K V) : List (K × V) := entries t.slots

/-- the loop of `HashMapOfValueEqual` over the live entries of `x` -/
def equalLoop (veq : V → V → Bool) (y : Tbl K V) : List (K × V) → Res Bool
  | [] => .ok true
  | (k, v) :: rest =>
    match get hash eqv y k with
    | .panic => .panic
    | .ok .absent => .ok false
    | .ok (.val w) => if veq v w then equalLoop veq y rest else .ok false

/-- `HashMapOfValueEqual` (without the pointer shortcut) -/
def equal (veq : V → V → Bool) (x y : Tbl K V) : Res Bool :=
  if x.elements ≠ y.elements then .ok false else equalLoop hash eqv veq y x.toList

/-- the loop of `HashSetOfValueEqual`: every key of the list is in `y` -/
def keysIn (y : Tbl K V) : List (K × V) → Res Bool
  | [] => .ok true
  | (k, _) :: rest =>
    match containsKey hash eqv y k with
    | .panic => .panic
    | .ok false => .ok false
    | .ok true => keysIn y rest

/-- `HashSetOfValueEqual` -/
def sEqual (x y : Tbl K V) : Res Bool :=
  if x.elements ≠ y.elements then .ok false else keysIn hash eqv y x.toList

/-! ### sets: `vm/hash_set.go` keeps the same table with the value slot unused; `Append` is
`setWithMaxLoad`, `Delete`/`Contains` are `delete`/`containsKey`; union and intersection follow. -/

/-! ### histories over several live tables (maps, records and sets alike) -/

/-- state-changing operations; tables are numbered by creation -/
inductive Op (K V : Type) where
  | new (capacity : Nat)                 -- NewHashMapOfValue / NewHashSetOfValue
  | set (m : Nat) (k : K) (v : V)        -- HashMapOfValueSet / HashSetOfValueAppend
  | del (m : Nat) (k : K)                -- HashMapOfValueDelete / HashSetOfValueDelete
  | setcap (m : Nat) (c : Nat)           -- …SetCapacity
  | grow (m : Nat) (n : Nat)             -- …Grow
  | clone (m : Nat)                      -- Clone / Copy(): same table contents
  | clonecap (m : Nat) (c : Nat)         -- CloneHashMap(capacity) / CloneHashSet(capacity)
  | cat (a b : Nat)                      -- HashMapOfValueConcat: clone a, Copy b into it
  | copy (t s : Nat)                     -- HashMapOfValueCopy(target, source)
  | union (a b : Nat)                    -- HashSetOfValueUnion
  | inter (a b : Nat)                    -- HashSetOfValueIntersection

/-- `HashSetOfValueUnion`/`Intersection` on tables whose values are irrelevant (`dflt` is stored) -/
def unionLoop (dflt : V) (acc : Tbl K V) : List (K × V) → Res (Tbl K V)
  | [] => .ok acc
  | (k, _) :: rest =>
    match setWithMaxLoad hash eqv acc k dflt 3 4 with
    | .panic => .panic
    | .ok acc' => unionLoop dflt acc' rest

def union (dflt : V) (x y : Tbl K V) : Res (Tbl K V) :=
  let longer := if x.elements > y.elements then x else y
  let shorter := if x.elements > y.elements then y else x
  match copy hash eqv (Tbl.new (shorter.elements + longer.elements)) longer with
  | .panic => .panic
  | .ok acc => unionLoop hash eqv dflt acc shorter.toList

def interLoop (dflt : V) (longer acc : Tbl K V) : List (K × V) → Res (Tbl K V)
  | [] => .ok acc
  | (k, _) :: rest =>
    match containsKey hash eqv longer k with
    | .panic => .panic
    | .ok false => interLoop dflt longer acc rest
    | .ok true =>
      match setWithMaxLoad hash eqv acc k dflt 3 4 with
      | .panic => .panic
      | .ok acc' => interLoop dflt longer acc' rest

def inter (dflt : V) (x y : Tbl K V) : Res (Tbl K V) :=
  let longer := if x.elements > y.elements then x else y
  let shorter := if x.elements > y.elements then y else x
  interLoop hash eqv dflt longer (Tbl.new 5) shorter.toList

/-- one operation on the list of live tables: `none` = dangling table number, `panic` = Go panic
(the state is then unchanged) -/
def mstep (dflt : V) (objs : List (Tbl K V)) : Op K V → Option (Res (List (Tbl K V)))
  | .new c => some (.ok (objs ++ [Tbl.new c]))
  | .set m k v =>
    match objs[m]? with
    | none => none
    | some t => match set hash eqv t k v with
      | .ok t' => some (.ok (objs.set m t'))
      | .panic => some .panic
  | .del m k =>
    match objs[m]? with
    | none => none
    | some t => match delete hash eqv t k with
      | .ok (t', _) => some (.ok (objs.set m t'))
      | .panic => some .panic
  | .setcap m c =>
    match objs[m]? with
    | none => none
    | some t => match setCapacity hash eqv t c with
      | .ok t' => some (.ok (objs.set m t'))
      | .panic => some .panic
  | .grow m n =>
    match objs[m]? with
    | none => none
    | some t => match setCapacity hash eqv t (t.cap + n) with
      | .ok t' => some (.ok (objs.set m t'))
      | .panic => some .panic
  | .clone m =>
    match objs[m]? with
    | none => none
    | some t => some (.ok (objs ++ [t]))
  | .clonecap m c =>
    match objs[m]? with
    | none => none
    | some t => match cloneCap hash eqv t c with
      | .ok t' => some (.ok (objs ++ [t']))
      | .panic => some .panic
  | .cat a b =>
    match objs[a]?, objs[b]? with
    | some x, some y => match concat hash eqv x y with
      | .ok t' => some (.ok (objs ++ [t']))
      | .panic => some .panic
    | _, _ => none
  | .copy t s =>
    match objs[t]?, objs[s]? with
    | some x, some y => match copy hash eqv x y with
      | .ok t' => some (.ok (objs.set t t'))
      | .panic => some .panic
    | _, _ => none
  | .union a b =>
    match objs[a]?, objs[b]? with
    | some x, some y => match union hash eqv dflt x y with
      | .ok t' => some (.ok (objs ++ [t']))
      | .panic => some .panic
    | _, _ => none
  | .inter a b =>
    match objs[a]?, objs[b]? with
    | some x, some y => match inter hash eqv dflt x y with
      | .ok t' => some (.ok (objs ++ [t']))
      | .panic => some .panic
    | _, _ => none

/-- run a history; a panicking or ill-formed operation leaves the tables as they are -/
def mrun (dflt : V) : List (Tbl K V) → List (Op K V) → List (Tbl K V)
  | objs, [] => objs
  | objs, op :: ops =>
    match mstep hash eqv dflt objs op with
    | some (.ok objs') => mrun dflt objs' ops
    | _ => mrun dflt objs ops

end

end Elk.HashMap
