import ElkVerif.Model.Chan
/-
Histories of concurrent runs on the real wrappers (C25) and the executable checker `okHistory`.
Core Lean only. The records and where they are written relative to the call (before/after) are
documented in `harness/dom/sync.go`; the placement is what makes each check below a sound reading
of the real order of events:

  pb a ch v     before Push(v)            pe a ch v ok    after Push returned (ok = no error)
  ge a ch v     after Pop returned v      gx a ch         after Pop returned ClosedError
  cb a ch       before Close()            ce a ch ok      after Close returned
  en a m        after Lock() returned     lv a m          before Unlock()
  ren a m       after ReadLock()          rlv a m         before ReadUnlock()
  ob a o        end of the Once body      orr a o         the Once call returned
  wa a w k      after Add(k) returned     wd a w          before End()
  wb a w        before Wait()             wr a w          after Wait() returned
-/
namespace Elk.Chan

inductive HRec where
  | pb (a ch v : Nat) | pe (a ch v : Nat) (ok : Bool) | ge (a ch v : Nat) | gx (a ch : Nat)
  | cb (a ch : Nat) | ce (a ch : Nat) (ok : Bool)
  | en (a m : Nat) | lv (a m : Nat) | ren (a m : Nat) | rlv (a m : Nat)
  | ob (a o : Nat) | orr (a o : Nat)
  | wa (a w k : Nat) | wd (a w : Nat) | wb (a w : Nat) | wr (a w : Nat)
deriving DecidableEq, Repr, Inhabited

abbrev Hist := List HRec

/-- tokens delivered on `ch`, in log order -/
def delivered (ch : Nat) (h : Hist) : List Nat :=
  h.filterMap fun r => match r with
    | .ge _ c v => if c = ch then some v else none
    | _ => none

/-- tokens received by consumer `c` on `ch`, in its program order -/
def receivedBy (c ch : Nat) (h : Hist) : List Nat :=
  h.filterMap fun r => match r with
    | .ge a c' v => if a = c ∧ c' = ch then some v else none
    | _ => none

/-- tokens whose push returned without error -/
def pushedOk (ch : Nat) (h : Hist) : List Nat :=
  h.filterMap fun r => match r with
    | .pe _ c v true => if c = ch then some v else none
    | _ => none

/-- (producer, position) of the first `pb` of token `v` on `ch` -/
def pushPos (ch v : Nat) : Hist → Nat → Option (Nat × Nat)
  | [], _ => none
  | .pb a c v' :: rest, k => if c = ch ∧ v' = v then some (a, k) else pushPos ch v rest (k + 1)
  | _ :: rest, k => pushPos ch v rest (k + 1)

/-- FIFO as seen by one consumer: if it received `v1` before `v2` and one producer pushed both, that
producer pushed `v1` first -/
def inPushOrder (h : Hist) (ch v1 v2 : Nat) : Bool :=
  match pushPos ch v1 h 0, pushPos ch v2 h 0 with
  | some (p1, k1), some (p2, k2) => p1 != p2 || k1 < k2
  | _, _ => true

def cnt (p : HRec → Bool) (h : Hist) : Nat := (h.filter p).length

def isEn (m : Nat) : HRec → Bool | .en _ m' => m' = m | _ => false
def isLv (m : Nat) : HRec → Bool | .lv _ m' => m' = m | _ => false
def isREn (m : Nat) : HRec → Bool | .ren _ m' => m' = m | _ => false
def isRLv (m : Nat) : HRec → Bool | .rlv _ m' => m' = m | _ => false
def isOb (o : Nat) : HRec → Bool | .ob _ o' => o' = o | _ => false
def isWd (w : Nat) : HRec → Bool | .wd _ w' => w' = w | _ => false
def isCb (ch : Nat) : HRec → Bool | .cb _ c => c = ch | _ => false
def isCeOk (ch : Nat) : HRec → Bool | .ce _ c true => c = ch | _ => false
def isPbOf (a ch v : Nat) : HRec → Bool | .pb a' c v' => a' = a ∧ c = ch ∧ v' = v | _ => false
def isPbTok (ch v : Nat) : HRec → Bool | .pb _ c v' => c = ch ∧ v' = v | _ => false
def isGeBy (a ch : Nat) : HRec → Bool | .ge a' c _ => a' = a ∧ c = ch | _ => false
def isWb (a w : Nat) : HRec → Bool | .wb a' w' => a' = a ∧ w' = w | _ => false

/-- sum of the `Add`s on `w` that had returned -/
def addsDone (w : Nat) (h : Hist) : Nat :=
  (h.filterMap fun r => match r with | .wa _ w' k => if w' = w then some k else none | _ => none).sum

/-- the records before the last `wb a w` -/
def beforeLastWb (a w : Nat) (pre : Hist) : Hist :=
  (pre.reverse.dropWhile (fun r => !isWb a w r)).drop 1 |>.reverse

/-- The local rule every record must satisfy in the context `pre ++ x :: post` it occurs in. -/
def localOk (pre : Hist) (x : HRec) (post : Hist) : Bool :=
  match x with
  -- a delivered token was pushed by somebody, earlier (nothing is invented, nothing arrives before it is sent)
  | .ge _ ch v => pre.any (isPbTok ch v)
  -- a consumer that saw the channel closed: somebody had started closing it, and this consumer never
  -- receives anything from it afterwards
  | .gx a ch => pre.any (isCb ch) && !post.any (isGeBy a ch)
  -- a push that succeeded was started before any close of the channel had completed
  | .pe a ch v true => !(pre.takeWhile (fun r => !isPbOf a ch v r)).any (isCeOk ch)
  -- mutual exclusion: when a thread enters, every earlier entry has left, and no reader is inside
  | .en _ m => cnt (isEn m) pre == cnt (isLv m) pre && cnt (isREn m) pre == cnt (isRLv m) pre
  -- a reader enters only while no writer is inside
  | .ren _ m => cnt (isEn m) pre == cnt (isLv m) pre
  -- the Once body runs at most once
  | .ob _ o => cnt (isOb o) pre == 0
  -- a Once call returns only after the body has completed
  | .orr _ o => pre.any (isOb o)
  -- Wait returns only after as many End()s were started as Add()s had completed when Wait was entered
  | .wr a w => addsDone w (beforeLastWb a w pre) ≤ cnt (isWd w) pre
  | _ => true

/-- every split of the history satisfies the local rule -/
def allSplits (p : Hist → HRec → Hist → Bool) : Hist → Hist → Bool
  | _, [] => true
  | pre, x :: post => p pre x post && allSplits p (pre ++ [x]) post

def nodupB : List Nat → Bool
  | [] => true
  | x :: xs => !xs.contains x && nodupB xs

def pairwiseB (r : Nat → Nat → Bool) : List Nat → Bool
  | [] => true
  | x :: xs => xs.all (r x) && pairwiseB r xs

def chansOf (h : Hist) : List Nat :=
  (h.filterMap fun r => match r with
    | .pb _ c _ | .pe _ c _ _ | .ge _ c _ | .gx _ c | .cb _ c | .ce _ c _ => some c
    | _ => none).eraseDups

def consumersOf (ch : Nat) (h : Hist) : List Nat :=
  (h.filterMap fun r => match r with
    | .ge a c _ => if c = ch then some a else none
    | _ => none).eraseDups

def sawClosed (ch : Nat) (h : Hist) : Bool := h.any fun r => match r with | .gx _ c => c = ch | _ => false

/-- per channel: exactly-once delivery, per-consumer FIFO, and — once a consumer has seen the channel
closed and drained — nothing that was pushed successfully is missing -/
def chanOk (h : Hist) (ch : Nat) : Bool :=
  nodupB (delivered ch h) &&
  (consumersOf ch h).all (fun c => pairwiseB (inPushOrder h ch) (receivedBy c ch h)) &&
  (!sawClosed ch h || (pushedOk ch h).all (fun v => (delivered ch h).contains v))

/-- the certified history checker -/
def okHistory (h : Hist) : Bool := allSplits localOk [] h && (chansOf h).all (chanOk h)

end Elk.Chan
