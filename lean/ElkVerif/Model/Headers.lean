/-!
# Std headers vs native implementations: the table schema and the row predicates (C28)

`Gen/Headers.lean` (regenerated on every run by `elkh probe headers`) lists, for every namespace of
`Std` in the global type environment (`types/headers.go`, generated from `headers/*.elh`), every
method visible on it (own, inherited, mixed in) together with what the *runtime* lookup
(`value.Class.LookupMethod` on the runtime class / singleton class of the same name) finds.

Strings travel as natural numbers (`code s = Σ byteᵢ · 256ⁱ` over the UTF-8 bytes): the kernel
compares them in one step; `decode` turns a code back into text for reading.
Core Lean only.
-/
namespace Elk.Headers

structure Row where
  ns : Nat            -- namespace the method is visible on (code of its full name)
  side : Nat          -- 0 instance method, 1 singleton (class / module level) method
  name : Nat          -- method name (code)
  kind : Nat          -- 0 class, 1 abstract class, 2 mixin, 3 module, 4 interface
  abstr : Bool        -- declared `abstract` / `sig`
  slots : Nat         -- parameter slots of the declared signature (required + optional + rest + named rest)
  req : Nat           -- required parameters
  found : Bool        -- the runtime lookup finds a method
  rtkind : Nat        -- 0 none, 1 native, 2 bytecode, 3 getter, 4 setter, 5 other
  rtparams : Nat      -- ParameterCount of the runtime method
deriving DecidableEq, Repr, Inhabited

/-- base-256 code of a string -/
def code (s : String) : Nat := s.toUTF8.toList.foldr (fun b acc => b.toNat + 256 * acc) 0

def decodeBytes : Nat → Nat → List UInt8
  | 0, _ => []
  | _, 0 => []
  | fuel + 1, n => UInt8.ofNat (n % 256) :: decodeBytes fuel (n / 256)

/-- exceptions: per namespace code, the (side, name code) pairs known to be missing / to disagree -/
abbrev Exceptions := List (Nat × List (Nat × Nat))

def Exceptions.has (e : Exceptions) (ns side name : Nat) : Bool :=
  match e.find? (fun p => p.1 == ns) with
  | some p => p.2.any fun q => q.1 == side && q.2 == name
  | none => false

/-- `#init` is the constructor protocol (`INSTANTIATE`, native constructors), `=~` is compiled to the
`LAX_EQUAL` opcode: neither is looked up as a method on the declaring class -/
def Row.special (initCode laxEqCode : Nat) (r : Row) : Bool := r.name == initCode || r.name == laxEqCode

/-- the row needs a runtime method: a concrete class or a module (instances / the module exist),
not abstract, not one of the two special names -/
def Row.needsRuntime (initCode laxEqCode : Nat) (r : Row) : Bool :=
  (r.kind == 0 || r.kind == 3) && !r.abstr && !r.special initCode laxEqCode

/-- declared ⇒ callable, up to the exception list -/
def Row.callableOk (initCode laxEqCode : Nat) (missing : Exceptions) (r : Row) : Bool :=
  !r.needsRuntime initCode laxEqCode || r.found || missing.has r.ns r.side r.name

/-- arity: a native method takes exactly the declared parameter slots (the compiler pushes at most
`slots` arguments, the VM fills up to `ParameterCount` with `undefined`, the native pops
`ParameterCount + 1`), up to the exception list -/
def Row.arityOk (arity : Exceptions) (r : Row) : Bool :=
  !(r.found && r.rtkind == 1) || r.slots == r.rtparams || arity.has r.ns r.side r.name

def chunkOk (initCode laxEqCode : Nat) (missing arity : Exceptions) (c : List Row) : Bool :=
  c.all fun r => r.callableOk initCode laxEqCode missing && r.arityOk arity

end Elk.Headers
