/-
Model of the `elk test` runner: `ext/std/test/filter.go` (`SuiteMatchesFilters`,
`CaseMatchesFilters`, `PathFilter`, `RegexFilter`), the registration done by `describe`/`test`/
`it`/`should` in `ext/std/test/test.go`, `Suite.Run`/`Case.Run` with their hooks
(`suite.go`, `case.go`), status aggregation (`UpdateStatus` in `suite_report.go`/`case_report.go`)
and the exit status computed by `runTestFile` in `cmd/elk/main.go`.

Core Lean only. Regex matching (`value.Regex.MatchesString`) and glob matching
(`doublestar.MatchUnvalidated`) are parameters: a filter carries the predicate.
The shuffle of the cases of one suite (`shuffleCases`) is not modelled: the model runs the cases
in registration order and answers are compared as sorted lists.
-/
namespace Elk.Filter

/-- what a closure (case body or hook) does when called: returns, throws an `AssertionError`
(`TEST_FAILED`), throws anything else (`TEST_ERROR`) -/
inductive Outcome where
  | pass | fail | error
deriving DecidableEq, Repr, Inhabited

/-- `position.Location` as far as the filters read it -/
structure Loc where
  file : String
  first : Int
  last : Int
deriving DecidableEq, Repr, Inhabited

/-- `test.Filter`: `RegexFilter` / `PathFilter{pattern,line}` (`line < 0`: no line given) -/
inductive Filter where
  | grep (re : String → Bool)
  | path (glob : String → Bool) (line : Int)

structure Hook where
  id : Nat
  outcome : Outcome
deriving DecidableEq, Repr

/-- the closures registered by `before_all`, `after_all`, `before_each`, `after_each` (in call order) -/
structure Hooks where
  beforeAll : List Hook := []
  afterAll : List Hook := []
  beforeEach : List Hook := []
  afterEach : List Hook := []
deriving Repr

/-- a `test`/`it`/`should` call; `name` is the name after the `it `/`should ` prefix was added -/
structure Case where
  id : Nat
  name : String
  loc : Loc
  body : Outcome
deriving DecidableEq, Repr

/-- a `describe`/`context` call with everything its body registers -/
inductive Suite where
  | mk (name : String) (loc : Loc) (hooks : Hooks) (cases : List Case) (subs : List Suite)

/-- everything registered at the top level (`RootSuite`; it has no location) -/
structure Root where
  hooks : Hooks
  cases : List Case
  subs : List Suite

/-! ## names (`Suite.FullName`, `Suite.FullNameWithSeparator`, `Case.FullNameWithSeparator`) -/

/-- `FullName()` and `FullNameWithSeparator()` of the current suite -/
structure NameCtx where
  full : String
  sep : String
deriving Repr, DecidableEq

def NameCtx.root : NameCtx := ⟨"", ""⟩

/-- names of a sub-suite `name` of the suite with names `p` -/
def NameCtx.sub (p : NameCtx) (name : String) : NameCtx :=
  if p.full = "" then ⟨name, name⟩ else ⟨p.full ++ " " ++ name, p.full ++ " > " ++ name⟩

/-- `Case.FullNameWithSeparator` -/
def caseFullName (p : NameCtx) (name : String) : String := p.sep ++ " > " ++ name

/-! ## filters -/

/-- `SuiteMatch` -/
inductive SuiteMatch where
  | no | yes | full     -- SUITE_MATCH_FALSE / SUITE_MATCH_TRUE / SUITE_MATCH_FULL
deriving DecidableEq, Repr

def SuiteMatch.isFull : SuiteMatch → Bool
  | .full => true
  | _ => false

/-- `PathFilter.LocationMatches` -/
def locationMatches (glob : String → Bool) (line : Int) (loc : Loc) : Bool :=
  if !glob loc.file then false
  else if line < 0 then true
  else decide (loc.first ≤ line) && decide (line ≤ loc.last)

/-- `PathFilter.startsSuite`: the line is the first line of the suite or of one of its ancestors
(`chain` = locations of the suite and its ancestors, innermost first; the root has none) -/
def startsSuite (glob : String → Bool) (line : Int) (chain : List Loc) : Bool :=
  if line < 0 then false
  else chain.any fun a => decide (line = a.first) && glob a.file

/-- `Filter.SuiteMatches` (`anc`: locations of the strict ancestors) -/
def Filter.suiteMatches : Filter → Loc → List Loc → SuiteMatch
  | .grep _, _, _ => .yes
  | .path glob line, loc, anc =>
    if !glob loc.file then .no
    else if line < 0 then .yes
    else if startsSuite glob line (loc :: anc) then .full
    else if decide (loc.first ≤ line) && decide (line ≤ loc.last) then .yes
    else .no

/-- the loop of `SuiteMatchesFilters` with its accumulator `result` -/
def suiteMatchesLoop (loc : Loc) (anc : List Loc) : List Filter → SuiteMatch → SuiteMatch
  | [], r => if r = .no then .yes else r
  | f :: fs, r =>
    match f.suiteMatches loc anc with
    | .no => .no
    | .full => suiteMatchesLoop loc anc fs (if r = .no then .full else r)
    | .yes => suiteMatchesLoop loc anc fs .yes

/-- `SuiteMatchesFilters` (`inherited` = the `FullMatch` copied from the parent by `NewSubSuite`) -/
def suiteMatchesFilters (fs : List Filter) (inherited : Bool) (loc : Loc) (anc : List Loc) : SuiteMatch :=
  if inherited then .full else suiteMatchesLoop loc anc fs .no

/-- `Filter.CaseMatches` (`chain`: locations of the enclosing suites) -/
def Filter.caseMatches : Filter → String → Loc → List Loc → Bool
  | .grep re, fullName, _, _ => re fullName
  | .path glob line, _, loc, chain => locationMatches glob line loc || startsSuite glob line chain

/-- `CaseMatchesFilters` -/
def caseMatchesFilters (fs : List Filter) (parentFull : Bool) (fullName : String) (loc : Loc)
    (chain : List Loc) : Bool :=
  parentFull || fs.all fun f => f.caseMatches fullName loc chain

/-! ## registration (`describe`, `test`, `it`, `should`) -/

structure RCase where
  c : Case
  fullName : String
deriving Repr

/-- a registered suite (`test.Suite` after its `describe` body ran) -/
inductive RSuite where
  | mk (name : String) (full : Bool) (hooks : Hooks) (cases : List RCase) (subs : List RSuite)

def regCases (fs : List Filter) (full : Bool) (ctx : NameCtx) (chain : List Loc) (cs : List Case) : List RCase :=
  (cs.filter fun c => caseMatchesFilters fs full (caseFullName ctx c.name) c.loc chain).map
    fun c => ⟨c, caseFullName ctx c.name⟩

mutual
/-- the native `describe`: `NewSubSuite`, `SuiteMatchesFilters`, `RegisterSubSuite`, body -/
def regSuite (fs : List Filter) (ctx : NameCtx) (anc : List Loc) (parentFull : Bool) : Suite → Option RSuite
  | .mk name loc hooks cases subs =>
    match suiteMatchesFilters fs parentFull loc anc with
    | .no => none
    | m =>
      let full := m.isFull
      let ctx' := ctx.sub name
      some (.mk name full hooks (regCases fs full ctx' (loc :: anc) cases)
        (regSubs fs ctx' (loc :: anc) full subs))
def regSubs (fs : List Filter) (ctx : NameCtx) (anc : List Loc) (parentFull : Bool) : List Suite → List RSuite
  | [] => []
  | s :: ss =>
    match regSuite fs ctx anc parentFull s with
    | none => regSubs fs ctx anc parentFull ss
    | some r => r :: regSubs fs ctx anc parentFull ss
end

/-- the whole registration phase (running the main test file with `Filters` set) -/
def register (fs : List Filter) (root : Root) : RSuite :=
  .mk "" false root.hooks (regCases fs false .root [] root.cases) (regSubs fs .root [] false root.subs)

/-! ## running (`Suite.Run`, `Case.Run`) -/

/-- `TestStatus` -/
inductive Status where
  | pending | failed | error | skipped | running | success
deriving DecidableEq, Repr, Inhabited

/-- `SuiteReport.UpdateStatus` / `CaseReport.UpdateStatus` -/
def updateStatus (s new : Status) : Status :=
  match new with
  | .error => .error
  | .failed => if s = .error then s else .failed
  | .success => if s = .running then .success else s
  | _ => s

inductive EvKind where
  | body | beforeAll | afterAll | beforeEach | afterEach
deriving DecidableEq, Repr

/-- one call of a closure by the runner -/
structure Ev where
  kind : EvKind
  id : Nat
  outcome : Outcome
deriving DecidableEq, Repr

/-- the status a failing closure leaves in the report (`value.IsA(err, AssertionErrorClass)`) -/
def Outcome.status (o : Outcome) (old : Status) : Status :=
  match o with
  | .pass => old
  | .fail => .failed
  | .error => .error

structure CaseRep where
  c : Case
  fullName : String
  status : Status
deriving Repr

/-- a `SuiteReport`, flattened: status, the case reports below it, the closures called so far -/
structure Rep where
  status : Status
  cases : List CaseRep
  events : List Ev
deriving Repr

/-- `Case.runBeforeEach`: stops at the first failing hook; answers the status left in the report,
the closures called and whether all hooks passed -/
def runBeforeEach : List Hook → Status → Status × List Ev × Bool
  | [], st => (st, [], true)
  | h :: hs, st =>
    if h.outcome = .pass then
      let (st', evs, ok) := runBeforeEach hs st
      (st', ⟨.beforeEach, h.id, h.outcome⟩ :: evs, ok)
    else (h.outcome.status st, [⟨.beforeEach, h.id, h.outcome⟩], false)

/-- `Case.runAfterEach`: all hooks run; a failing one overwrites the status -/
def runAfterEach : List Hook → Status → Status × List Ev
  | [], st => (st, [])
  | h :: hs, st =>
    let (st', evs) := runAfterEach hs (h.outcome.status st)
    (st', ⟨.afterEach, h.id, h.outcome⟩ :: evs)

/-- `Case.Run` (`bes`/`aes`: the hooks of all enclosing suites, innermost suite first) -/
def runCase (bes aes : List Hook) (rc : RCase) : CaseRep × List Ev :=
  match runBeforeEach bes .running with
  | (st, evs, false) =>
    let (st', evs') := runAfterEach aes st
    (⟨rc.c, rc.fullName, st'⟩, evs ++ evs')
  | (st, evs, true) =>
    let st1 := rc.c.body.status st
    let (st2, evs2) := runAfterEach aes st1
    (⟨rc.c, rc.fullName, updateStatus st2 .success⟩, evs ++ ⟨.body, rc.c.id, rc.c.body⟩ :: evs2)

/-- the loop over `s.Cases` in `Suite.Run` (`RegisterCaseReport`); `st` is the suite status so far -/
def runCases (bes aes : List Hook) : List RCase → Status → Rep
  | [], st => ⟨st, [], []⟩
  | rc :: rest, st =>
    let (cr, evs) := runCase bes aes rc
    let r := runCases bes aes rest (updateStatus st cr.status)
    ⟨r.status, cr :: r.cases, evs ++ r.events⟩

/-- `Suite.runBeforeAll`: `some status` when a hook failed -/
def runBeforeAll : List Hook → Option Status × List Ev
  | [] => (none, [])
  | h :: hs =>
    if h.outcome = .pass then
      let (r, evs) := runBeforeAll hs
      (r, ⟨.beforeAll, h.id, h.outcome⟩ :: evs)
    else (some (h.outcome.status .running), [⟨.beforeAll, h.id, h.outcome⟩])

/-- `Suite.runAfterAll` -/
def runAfterAll : List Hook → Status → Status × List Ev
  | [], st => (st, [])
  | h :: hs, st =>
    let (st', evs) := runAfterAll hs (h.outcome.status st)
    (st', ⟨.afterAll, h.id, h.outcome⟩ :: evs)

mutual
/-- `Suite.CaseCount` -/
def caseCount : RSuite → Nat
  | .mk _ _ _ cases subs => cases.length + caseCountList subs
def caseCountList : List RSuite → Nat
  | [] => 0
  | s :: ss => caseCount s + caseCountList ss
end

mutual
/-- `Suite.Run` -/
def runSuite (bes aes : List Hook) : RSuite → Rep
  | .mk _ _ hooks cases subs =>
    if cases.length + caseCountList subs = 0 then ⟨.skipped, [], []⟩
    else
      match runBeforeAll hooks.beforeAll with
      | (some st, evs) => ⟨st, [], evs⟩
      | (none, evs) =>
        let bes' := hooks.beforeEach ++ bes
        let aes' := hooks.afterEach ++ aes
        let r1 := runCases bes' aes' cases .running
        let r2 := runSubs bes' aes' subs r1.status
        let (st3, evs3) := runAfterAll hooks.afterAll r2.status
        ⟨updateStatus st3 .success, r1.cases ++ r2.cases, evs ++ r1.events ++ r2.events ++ evs3⟩
/-- the loop over `s.SubSuites` (`RegisterSubSuiteReport`); `st` is the suite status so far -/
def runSubs (bes aes : List Hook) : List RSuite → Status → Rep
  | [], st => ⟨st, [], []⟩
  | s :: ss, st =>
    let r := runSuite bes aes s
    let r' := runSubs bes aes ss (updateStatus st r.status)
    ⟨r'.status, r.cases ++ r'.cases, r.events ++ r'.events⟩
end

/-- `test.Run()` on the registered root -/
def run (r : RSuite) : Rep := runSuite [] [] r

/-- `runTestFile`: exit status 1 unless the root report is a success (or nothing was selected) -/
def exitCode (rep : Rep) : Nat :=
  if rep.status = .success ∨ rep.status = .skipped then 0 else 1

/-- `elk test` as a function of the test tree and the filters -/
def elkTest (fs : List Filter) (root : Root) : Rep := run (register fs root)

/-! ## specification -/

/-- a case of the unfiltered tree with what the specification needs to know about its position -/
structure CaseInfo where
  c : Case
  fullName : String
  chain : List Loc      -- locations of the enclosing suites, innermost first
deriving Repr

/-- **`sat`**: a case satisfies `--grep re` iff its full name matches; it satisfies
`--path glob[:line]` iff the glob matches its file and (no line was given, or the line lies
within the case, or the line is the first line of an enclosing suite). -/
def sat (f : Filter) (ci : CaseInfo) : Bool :=
  match f with
  | .grep re => re ci.fullName
  | .path glob line =>
    glob ci.c.loc.file &&
      (decide (line < 0) || (decide (ci.c.loc.first ≤ line) && decide (line ≤ ci.c.loc.last))
        || ci.chain.any fun a => decide (line = a.first))

def satAll (fs : List Filter) (ci : CaseInfo) : Bool := fs.all fun f => sat f ci

def infosOfCases (ctx : NameCtx) (chain : List Loc) (cs : List Case) : List CaseInfo :=
  cs.map fun c => ⟨c, caseFullName ctx c.name, chain⟩

mutual
def suiteInfos (ctx : NameCtx) (anc : List Loc) : Suite → List CaseInfo
  | .mk name loc _ cases subs =>
    infosOfCases (ctx.sub name) (loc :: anc) cases ++ subsInfos (ctx.sub name) (loc :: anc) subs
def subsInfos (ctx : NameCtx) (anc : List Loc) : List Suite → List CaseInfo
  | [] => []
  | s :: ss => suiteInfos ctx anc s ++ subsInfos ctx anc ss
end

/-- every case of the tree, in the order the unfiltered runner visits them -/
def allCases (root : Root) : List CaseInfo :=
  infosOfCases .root [] root.cases ++ subsInfos .root [] root.subs

/-- the cases the specification selects -/
def selected (fs : List Filter) (root : Root) : List Case :=
  ((allCases root).filter (satAll fs)).map (·.c)

end Elk.Filter
