/-
The parser's token-window discipline (parser/parser.go: lookahead/secondLookahead/thirdLookahead, `advance`, `accept`,
`match`, `matchOk`, `consumeExpected`, `synchronise`) as a small machine. Core Lean only.

The lexer answers END_OF_FILE for ever once the input is used up (`Lexer.Next`), so the window plus the unread input
is faithfully one list of the non-EOF tokens not yet consumed; a lookahead beyond its end is END_OF_FILE (`none`).
-/
namespace Elk.TokWin

inductive Ty where
  | newline | semicolon | error | thinArrow | wigglyArrow
  | other (n : Nat)
deriving DecidableEq, Repr

structure Win where
  toks : List Ty
deriving Repr

/-- `p.lookahead.Type`, `none` = END_OF_FILE -/
def Win.la (w : Win) : Option Ty := w.toks.head?
def Win.la2 (w : Win) : Option Ty := w.toks[1]?
def Win.la3 (w : Win) : Option Ty := w.toks[2]?

/-- `advance`: returns the previous lookahead and shifts the window -/
def advance (w : Win) : Option Ty × Win := (w.la, ⟨w.toks.tail⟩)

/-- `accept` -/
def accept (w : Win) (tys : List Ty) : Bool :=
  match w.la with
  | some t => tys.contains t
  | none => false

/-- `matchOk`: the consumed token, or `none` — Go returns a NIL token pointer here, which callers must not dereference -/
def matchOk (w : Win) (tys : List Ty) : Option Ty × Win :=
  if accept w tys then advance w else (none, w)

/-- `consumeExpected`: always moves on; the flag says whether the expected token was there -/
def consume (w : Win) (ty : Ty) : (Option Ty × Bool) × Win :=
  let (t, w') := advance w
  ((t, w.la == some ty), w')

/-- `synchronise`: discard tokens until END_OF_FILE (answer `false`) or a statement separator (answer `true`) -/
def synchronise : List Ty → Bool × List Ty
  | [] => (false, [])
  | t :: rest => if t = .newline ∨ t = .semicolon then (true, t :: rest) else synchronise rest

/-- number of `advance` calls `synchronise` makes -/
def syncSteps : List Ty → Nat
  | [] => 0
  | t :: rest => if t = .newline ∨ t = .semicolon then 0 else 1 + syncSteps rest

end Elk.TokWin
