/-! Sorted, disjoint inclusive code-point ranges (probed Unicode class tables). Core Lean only. -/
namespace Elk.Ranges

/-- membership by linear scan (kernel-friendly; used in statements and `decide`d side conditions) -/
def mem (t : List (Nat × Nat)) (c : Nat) : Bool := t.any fun r => r.1 ≤ c && c ≤ r.2

/-- binary search over a sorted array (driver speed); `memA_eq_mem`-style agreement is tested by the
correspondence run, the theorems only use `mem` -/
def memA (t : Array (Nat × Nat)) (c : Nat) : Bool :=
  let rec go (lo hi : Nat) (fuel : Nat) : Bool :=
    match fuel with
    | 0 => false
    | fuel + 1 =>
      if lo ≥ hi then false
      else
        let mid := (lo + hi) / 2
        let r := t[mid]!
        if c < r.1 then go lo mid fuel
        else if c > r.2 then go (mid + 1) hi fuel
        else true
  go 0 t.size (t.size + 1)

end Elk.Ranges
