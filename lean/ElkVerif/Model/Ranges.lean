/-! Sorted, disjoint inclusive code-point ranges (probed Unicode class tables). Core Lean only. -/
namespace Elk.Ranges

/-- membership by linear scan (kernel-friendly; used in statements and `decide`d side conditions) -/
def mem (t : List (Nat × Nat)) (c : Nat) : Bool := t.any fun r => r.1 ≤ c && c ≤ r.2

/-- binary search over a sorted array (driver speed); `memA_eq_mem`-style agreement is tested by the
correspondence run, the theorems only use `mem` -/
def memA (t : Array (Nat × Nat)) (c : Nat) : Bool :=
  let rec go (lo hi : Nat) (fuel : Nat) : Bool :=
    match fuel with
    | 0 => false
    | fuel + 1 =>
      if lo ≥ hi then false
      else
        let mid := (lo + hi) / 2
        let r := t[mid]!
        if c < r.1 then go lo mid fuel
        else if c > r.2 then go (mid + 1) hi fuel
        else true
  go 0 t.size (t.size + 1)

end Elk.Ranges

namespace Elk.Ranges

/-- every range of `a` lies inside one range of `b` (linear merge over sorted tables; sound for any
tables) -/
def subset : (fuel : Nat) → List (Nat × Nat) → List (Nat × Nat) → Bool
  | 0, a, _ => a.isEmpty
  | _ + 1, [], _ => true
  | _ + 1, _ :: _, [] => false
  | fuel + 1, r :: a, q :: b =>
    if q.1 ≤ r.1 && r.2 ≤ q.2 then subset fuel a (q :: b)
    else subset fuel (r :: a) b

theorem subset_sound : ∀ (fuel : Nat) (a b : List (Nat × Nat)), subset fuel a b = true →
    ∀ c, mem a c = true → mem b c = true := by
  intro fuel
  induction fuel with
  | zero =>
    intro a b h c hc
    cases a with
    | nil => simp [mem] at hc
    | cons r a => simp [subset] at h
  | succ f ih =>
    intro a b h c hc
    cases a with
    | nil => simp [mem] at hc
    | cons r a =>
      cases b with
      | nil => simp [subset] at h
      | cons q b =>
        simp only [subset] at h
        split at h
        · rename_i hin
          simp only [Bool.and_eq_true, decide_eq_true_eq] at hin
          simp only [mem, List.any_cons, Bool.or_eq_true, Bool.and_eq_true, decide_eq_true_eq] at hc
          rcases hc with hc | hc
          · simp only [mem, List.any_cons, Bool.or_eq_true, Bool.and_eq_true, decide_eq_true_eq]
            left; omega
          · exact ih a (q :: b) h c (by simpa [mem] using hc)
        · have := ih (r :: a) b h c hc
          simp only [mem, List.any_cons, Bool.or_eq_true] at this ⊢
          right; exact this

end Elk.Ranges
