import ElkVerif.Model.Range
/-!
# Executable face of the C23 model: iterable sources × natives over `Int` elements

What the `iter` line protocol evaluates: a *source* (a materialised sequence, a range, or one of
their iterators, possibly already advanced), an *operation* of `Std::Iterable::FiniteBase/Base`
with arguments drawn from a small pool of pure closures, and the observation that follows (the
result, then what iterating the receiver again yields).
-/
namespace Elk.IterOps
open Elk.Iter Elk.Range

/-- unary closures of the pool -/
inductive Fn1 | mul2 | add1 | neg | sq | ident | const7
  deriving DecidableEq, Repr

def Fn1.app : Fn1 → Int → Int
  | .mul2, x => x * 2 | .add1, x => x + 1 | .neg, x => -x | .sq, x => x * x | .ident, x => x | .const7, _ => 7

/-- predicates of the pool -/
inductive Pred | gt (k : Int) | lt (k : Int) | eq (k : Int) | even | odd | tt | ff
  deriving DecidableEq, Repr

def Pred.app : Pred → Int → Bool
  | .gt k, x => decide (x > k) | .lt k, x => decide (x < k) | .eq k, x => decide (x = k)
  | .even, x => decide (x % 2 = 0) | .odd, x => decide (x % 2 ≠ 0) | .tt, _ => true | .ff, _ => false

/-- binary closures of the pool -/
inductive Fn2 | add | mul | max | sub | fst | snd
  deriving DecidableEq, Repr

def Fn2.app : Fn2 → Int → Int → Int
  | .add, a, b => a + b | .mul, a, b => a * b | .max, a, b => if a < b then b else a
  | .sub, a, b => a - b | .fst, a, _ => a | .snd, _, b => b

inductive Op
  | map (f : Fn1) | filter (p : Pred) | reject (p : Pred) | count (p : Pred) | any (p : Pred)
  | every (p : Pred) | find (p : Pred) | tryFind (p : Pred) | indexOf (v : Int) | findIndex (p : Pred)
  | contains (v : Int) | isEmpty | first | tryFirst | last | tryLast | take (n : Int) | drop (n : Int)
  | takeWhile (p : Pred) | dropWhile (p : Pred) | reduce (g : Fn2) | fold (init : Int) (g : Fn2)
  | toList | toTuple | length
  deriving DecidableEq, Repr

/-- printable results -/
inductive Out
  | list (l : List Int) | int (n : Int) | bool (b : Bool) | nil | undefined
  | notFound | outOfRange | fuel
  deriving DecidableEq, Repr

def ofExcept : Except NErr Int → Out
  | .ok a => .int a | .error .notFound => .notFound | .error .outOfRange => .outOfRange

def ofOption : Option Int → Out | some a => .int a | none => .nil

/-- run one native over an iterator from state `s`; returns the printable result and the state left
behind (`none` when the loop did not run or ran out of fuel) -/
def evalOp {σ : Type} (it : Iterator σ Int Empty) (fuel : Nat) (s : σ) (op : Op) : Out × Option σ :=
  let fin {ρ : Type} (r : Res ρ Empty σ) (f : ρ → Out) : Out × Option σ :=
    match r with
    | .ok v s' => (f v, some s')
    | .err e _ => nomatch e
    | .fuel => (.fuel, none)
  match op with
  | .map f => fin ((mapL f.app).run it fuel s) .list
  | .filter p => fin ((filterL p.app).run it fuel s) .list
  | .reject p => fin ((rejectL p.app).run it fuel s) .list
  | .count p => fin ((countL p.app).run it fuel s) (fun n => .int n)
  | .any p => fin ((anyL p.app).run it fuel s) .bool
  | .every p => fin ((everyL p.app).run it fuel s) .bool
  | .find p => fin ((findL p.app).run it fuel s) ofExcept
  | .tryFind p => fin ((tryFindL p.app).run it fuel s) ofOption
  | .indexOf v => fin ((indexOfL v).run it fuel s) .int
  | .findIndex p => fin ((findIndexL p.app).run it fuel s) .int
  | .contains v => fin ((containsL v).run it fuel s) .bool
  | .isEmpty => fin ((isEmptyL).run it fuel s) .bool
  | .first => fin ((firstL).run it fuel s) ofExcept
  | .tryFirst => fin ((tryFirstL).run it fuel s) ofOption
  | .last => fin ((lastL).run it fuel s) ofExcept
  | .tryLast => fin ((tryLastL).run it fuel s) ofOption
  | .take n =>
    match checkCount n with
    | .error _ => (.outOfRange, some s)
    | .ok _ => fin ((takeL n).run it fuel s) .list
  | .drop n =>
    match checkCount n with
    | .error _ => (.outOfRange, some s)
    | .ok _ => fin ((dropL n).run it fuel s) .list
  | .takeWhile p => fin ((takeWhileL p.app).run it fuel s) .list
  | .dropWhile p => fin ((dropWhileL p.app).run it fuel s) .list
  | .reduce g => fin ((reduceL g.app).run it fuel s) (fun o => match o with | some a => .int a | none => .undefined)
  | .fold i g => fin ((foldL i g.app).run it fuel s) .int
  | .toList => fin ((toListL).run it fuel s) .list
  | .toTuple => fin ((toListL).run it fuel s) .list
  | .length => fin ((lengthL).run it fuel s) (fun n => .int n)

/-- where the elements come from -/
inductive Source
  | seq (l : List Int)                         -- list, tuple, set (in iteration order): re-iterable
  | seqIter (l : List Int) (skip : Nat)        -- list/tuple/set iterator, closed channel, generator: one-shot
  | range (r : Range)                          -- a range value: `iter` makes a fresh iterator each time
  | rangeIter (r : Range) (skip : Nat)         -- a range iterator after `skip` calls of `next`
  deriving Repr

/-- advance an iterator state by `k` calls of `next` -/
def advance {σ α ε : Type} (it : Iterator σ α ε) : Nat → σ → σ
  | 0, s => s
  | k + 1, s => match it.next s with
    | .yield _ s' => advance it k s'
    | .stop s' => advance it k s'
    | .err _ s' => advance it k s'

/-- the first `cap` elements from a state, and whether the iteration ended within them -/
def peek {σ : Type} (it : Iterator σ Int Empty) (cap : Nat) (s : σ) : List Int × Bool :=
  match drain it (cap + 1) s with
  | (l, .done) => (l, true)
  | (l, _) => (l.take cap, false)

structure Answer where
  out : Out
  after : List Int      -- what iterating the receiver again yields (at most `cap`)
  ended : Bool          -- … and whether that iteration ended
  deriving Repr

def cap : Nat := 5
def loopFuel : Nat := 200

def evalSource (src : Source) (op : Op) : Answer :=
  match src with
  | .seq l =>
    let (o, _) := evalOp (listIter Int) loopFuel l op
    let (a, e) := peek (listIter Int) cap l
    ⟨o, a, e⟩
  | .seqIter l k =>
    let s0 := advance (listIter Int) k l
    let (o, s') := evalOp (listIter Int) loopFuel s0 op
    let (a, e) := peek (listIter Int) cap (s'.getD s0)
    ⟨o, a, e⟩
  | .range r =>
    let (o, _) := evalOp r.iterator loopFuel r.lo op
    let (a, e) := peek r.iterator cap r.lo
    ⟨o, a, e⟩
  | .rangeIter r k =>
    let s0 := advance r.iterator k r.lo
    let (o, s') := evalOp r.iterator loopFuel s0 op
    let (a, e) := peek r.iterator cap (s'.getD s0)
    ⟨o, a, e⟩

end Elk.IterOps
