import ElkVerif.Model.Mini.Types
/-!
# MiniElk — type checker for the whole fragment (stages B, C, D of the soundness result)

Stage A (`Types.lean`) types the side-effect-free expressions. This file types *everything* the
reference evaluator `Eval.lean` runs: assignments, declarations (optionally annotated), print,
if/else, labelled `while`/`loop`, `break`/`continue`, `return`, `throw`, `do … catch … finally`,
method calls (`callDef`) and closures (`lam`, `callClo`).

Design decisions (documented because they are choices, not facts about Elk):
* types `T`: `Int`, `Bool`, `String`, `nil`, `T?`, function types, plus three types that cannot be
  written in source: `zde` (the type of a caught `Std::ZeroDivisionError`), `any` (the type of a
  catch-all variable and the join of unrelated types: only `==`, `!=`, `!`, truthiness, `&&`/`||`/`??`
  and passing around are allowed on it — no printing, no arithmetic, no call) and `never` (the type of a statement that never finishes
  normally: `return`, `break`, `continue`, `throw`).
* `fits a b` (a value of type `a` may be stored where `b` is declared): same type, `never` into
  anything, `b` into `b?`, `nil` into `b?`.
* a local may not be declared twice in the same block scope (parameters and catch variables count);
  parameter names are distinct. (Irrelevant for soundness; it keeps the checker inside Elk's.)
* `return` at top level (outside a method / closure body) is rejected.
* `break`/`continue` need an enclosing loop; a labelled one needs an enclosing loop with that label.
  Method and closure bodies start with no enclosing loop.
* conditions (`if`, `while`) and the operands of `&&`, `||`, `??` may have any type (the evaluator
  only asks for truthiness / nil-ness); the result is the join of the possible results.
* a block's type is the type of the value its last statement leaves (a method returns it). The
  value of a `print` statement (`void` in Elk) and of a `while`/`loop` (in Elk: the last body
  value or nil) is typed `any`, so it cannot be used as a method result.
* `print e` (= `println(e.inspect)`) needs a printable type: `Int`, `Bool`, `String`, `nil` (Elk
  rejects `.inspect` on nilable and unknown types).

The checker is fuel-indexed like `check` (Expr/Stmt are nested inductives) and mutually recursive
like the evaluator, so `decide` can run it.
-/
namespace Elk.Mini

inductive T where
  | int | bool | str | nil | zde | any | never
  | opt (t : T)
  | fn (ps : List T) (r : T)
deriving Repr, Inhabited

mutual
def T.beq : T → T → Bool
  | .int, .int => true
  | .bool, .bool => true
  | .str, .str => true
  | .nil, .nil => true
  | .zde, .zde => true
  | .any, .any => true
  | .never, .never => true
  | .opt a, .opt b => T.beq a b
  | .fn ps r, .fn qs s => T.beqs ps qs && T.beq r s
  | _, _ => false
def T.beqs : List T → List T → Bool
  | [], [] => true
  | a :: as, b :: bs => T.beq a b && T.beqs as bs
  | _, _ => false
end

-- source types → checker types; `nil?` is `nil`; `T??` is not Elk syntax (rejected)
mutual
def ofTy : Ty → Option T
  | .int => some .int
  | .bool => some .bool
  | .str => some .str
  | .nil => some .nil
  | .opt t => match ofTy t with
    | some .nil => some .nil
    | some (.opt _) => none
    | some u => some (.opt u)
    | none => none
  | .fn ps r => match ofTys ps, ofTy r with
    | some ps, some r => some (.fn ps r)
    | _, _ => none
def ofTys : List Ty → Option (List T)
  | [] => some []
  | t :: ts => match ofTy t, ofTys ts with
    | some t, some ts => some (t :: ts)
    | _, _ => none
end

abbrev TEnvB := List (String × T)

def lookupT (g : TEnvB) (x : String) : Option T :=
  match g with
  | [] => none
  | (y, t) :: rest => if x == y then some t else lookupT rest x

/-- may a value of static type `a` be stored in / returned as a `b`? -/
def fits (a b : T) : Bool :=
  T.beq a b || T.beq a .never ||
    (match b with
     | .opt u => T.beq a u || T.beq a .nil
     | _ => false)

/-- least type both fit into (or `any`) -/
def join (a b : T) : T :=
  if fits a b then b else if fits b a then a
  else if T.beq a .nil then .opt b else if T.beq b .nil then .opt a else .any

def fitsAll : List T → List T → Bool
  | [], [] => true
  | a :: as, b :: bs => fits a b && fitsAll as bs
  | _, _ => false

/-- the type of a non-nil value of type `t` -/
def nonNil : T → T
  | .opt u => u
  | .nil => .never
  | t => t

def checkBinB (op : BinOp) (a b : T) : Option T :=
  match op, a, b with
  | .add, .int, .int => some .int
  | .sub, .int, .int => some .int
  | .mul, .int, .int => some .int
  | .div, .int, .int => some .int
  | .mod, .int, .int => some .int
  | .lt, .int, .int => some .bool
  | .le, .int, .int => some .bool
  | .gt, .int, .int => some .bool
  | .ge, .int, .int => some .bool
  | .eq, _, _ => some .bool
  | .ne, _, _ => some .bool
  | .concat, .str, .str => some .str
  | _, _, _ => none

def checkUnB (op : UnOp) (a : T) : Option T :=
  match op, a with
  | .neg, .int => some .int
  | .not, _ => some .bool
  | _, _ => none

/-- types whose values `println(e.inspect)` accepts in Elk (not nilable types, not `any`) -/
def printable : T → Bool
  | .int => true
  | .bool => true
  | .str => true
  | .nil => true
  | _ => false

/-- is a `break`/`continue` carrying label `l` legal inside the loops `L` (innermost first)? -/
def lblOk (L : List (Option String)) : Option String → Bool
  | none => !L.isEmpty
  | some x => L.any (fun m => m == some x)

/-- the type a catch pattern gives its variable -/
def patTy : Pat → T
  | .isStr => .str
  | .litStr _ => .str
  | .isInt => .int
  | .litInt _ => .int
  | .isZde => .zde
  | .any => .any

/-- parameter contexts, in the order `bindParams` allocates the cells -/
def bindTys : List String → List T → TEnvB → TEnvB
  | p :: ps, t :: ts, g => bindTys ps ts ((p, t) :: g)
  | _, _, g => g

/-- typing context of statements: locals, enclosing loops (innermost first), return type of the
enclosing method/closure (`none` at top level), names of the current block scope -/
structure Ctx where
  vars : TEnvB
  labels : List (Option String)
  ret : Option T
  /-- names declared in the current block scope (Elk: "cannot redeclare local") -/
  scope : List String

/-- Elk rejects a second `var x` in the same block scope (parameters and the catch variable
belong to the scope of their body); shadowing in a nested block is fine -/
def declOk (scope : List String) : Stmt → Bool
  | .decl x _ _ => !scope.contains x
  | _ => true

def declAdd (scope : List String) : Stmt → List String
  | .decl x _ _ => x :: scope
  | _ => scope

def nodupB : List String → Bool
  | [] => true
  | x :: xs => !xs.contains x && nodupB xs

/-- the declared signature of a method -/
def defSig (d : Def) : Option (List T × T) :=
  match ofTys (d.params.map (·.2)), ofTy d.ret with
  | some pts, some r => some (pts, r)
  | _, _ => none

def callTy (sig : List T × T) (ts : List T) : Option T :=
  if fitsAll ts sig.1 then some sig.2 else none

def calleeTy (tf : T) (ts : List T) : Option T :=
  match tf with
  | .fn pts r => callTy (pts, r) ts
  | _ => none

def assignTy (tx t : T) : Option T := if fits t tx then some t else none

def declTy (ann : Option Ty) (t : T) : Option T :=
  match ann with
  | none => some t
  | some a => match ofTy a with
    | some td => if fits t td then some td else none
    | none => none

mutual
def checkExpr (defs : List Def) : Nat → TEnvB → Expr → Option T
  | 0, _, _ => none
  | n + 1, g, e =>
    match e with
    | .int _ => some .int
    | .bool _ => some .bool
    | .str _ => some .str
    | .nil => some .nil
    | .var x => lookupT g x
    | .bin op a b =>
      (checkExpr defs n g a).bind fun ta => (checkExpr defs n g b).bind fun tb => checkBinB op ta tb
    | .un op a => (checkExpr defs n g a).bind fun ta => checkUnB op ta
    | .and a b =>
      (checkExpr defs n g a).bind fun ta => (checkExpr defs n g b).bind fun tb => some (join ta tb)
    | .or a b =>
      (checkExpr defs n g a).bind fun ta => (checkExpr defs n g b).bind fun tb => some (join ta tb)
    | .nilco a b =>
      (checkExpr defs n g a).bind fun ta => (checkExpr defs n g b).bind fun tb => some (join (nonNil ta) tb)
    | .assign x rhs =>
      (lookupT g x).bind fun tx => (checkExpr defs n g rhs).bind fun t => assignTy tx t
    | .callDef f args =>
      (findDef defs f).bind fun d => (defSig d).bind fun sig =>
        (checkArgs defs n g args).bind fun ts => callTy sig ts
    | .callClo f args =>
      (checkExpr defs n g f).bind fun tf => (checkArgs defs n g args).bind fun ts => calleeTy tf ts
    | .lam ps rt body =>
      (ofTys (ps.map (·.2))).bind fun pts => (ofTy rt).bind fun r =>
        (checkBlock defs n ⟨bindTys (ps.map (·.1)) pts g, [], some r, ps.map (·.1)⟩ body).bind fun tv =>
          if fits tv.1 r && nodupB (ps.map (·.1)) then some (.fn pts r) else none

def checkArgs (defs : List Def) : Nat → TEnvB → List Expr → Option (List T)
  | 0, _, _ => none
  | _ + 1, _, [] => some []
  | n + 1, g, a :: rest =>
    (checkExpr defs n g a).bind fun t => (checkArgs defs n g rest).bind fun ts => some (t :: ts)

/-- result: the type of the block's value and the context its declarations leave -/
def checkBlock (defs : List Def) : Nat → Ctx → List Stmt → Option (T × TEnvB)
  | 0, _, _ => none
  | _ + 1, c, [] => some (.nil, c.vars)
  | n + 1, c, [st] => if declOk c.scope st then checkStmt defs n c st else none
  | n + 1, c, st :: rest =>
    if declOk c.scope st then
      (checkStmt defs n c st).bind fun r =>
        checkBlock defs n { c with vars := r.2, scope := declAdd c.scope st } rest
    else none

def checkStmt (defs : List Def) : Nat → Ctx → Stmt → Option (T × TEnvB)
  | 0, _, _ => none
  | n + 1, c, st =>
    match st with
    | .decl x ann e =>
      (checkExpr defs n c.vars e).bind fun t => (declTy ann t).bind fun td => some (t, (x, td) :: c.vars)
    | .expr e => (checkExpr defs n c.vars e).bind fun t => some (t, c.vars)
    | .print e =>
      (checkExpr defs n c.vars e).bind fun t => if printable t then some (.any, c.vars) else none
    | .ite cnd t e =>
      (checkExpr defs n c.vars cnd).bind fun _ =>
        (checkBlock defs n { c with scope := [] } t).bind fun r1 =>
          (checkBlock defs n { c with scope := [] } e).bind fun r2 =>
          some (join r1.1 r2.1, c.vars)
    | .while lbl cnd body =>
      (checkExpr defs n c.vars cnd).bind fun _ =>
        (checkBlock defs n { c with labels := lbl :: c.labels, scope := [] } body).bind fun _ => some (.any, c.vars)
    | .loop lbl body =>
      (checkBlock defs n { c with labels := lbl :: c.labels, scope := [] } body).bind fun _ => some (.any, c.vars)
    | .brk l => if lblOk c.labels l then some (.never, c.vars) else none
    | .cont l => if lblOk c.labels l then some (.never, c.vars) else none
    | .ret e =>
      (checkExpr defs n c.vars e).bind fun t => c.ret.bind fun r =>
        if fits t r then some (.never, c.vars) else none
    | .throw e => (checkExpr defs n c.vars e).bind fun _ => some (.never, c.vars)
    | .try body catches fin =>
      (checkBlock defs n { c with scope := [] } body).bind fun rb => (checkCatches defs n c catches).bind fun tc =>
        match fin with
        | none => some (join rb.1 tc, c.vars)
        | some f => (checkBlock defs n { c with scope := [] } f).bind fun _ => some (join rb.1 tc, c.vars)

/-- the join of the types of the catch bodies (`never` for no clause) -/
def checkCatches (defs : List Def) : Nat → Ctx → List Catch → Option T
  | 0, _, _ => none
  | _ + 1, _, [] => some .never
  | n + 1, c, (.mk p x body) :: rest =>
    (checkBlock defs n { c with vars := (x, patTy p) :: c.vars, scope := [x] } body).bind fun rb =>
      (checkCatches defs n c rest).bind fun tr => some (join rb.1 tr)
end

/-- a method definition is well typed against its own signature -/
def checkDef (defs : List Def) (k : Nat) (d : Def) : Bool :=
  match defSig d with
  | some (pts, r) =>
    match checkBlock defs k ⟨bindTys (d.params.map (·.1)) pts [], [], some r, d.params.map (·.1)⟩ d.body with
    | some (tv, _) => fits tv r && nodupB (d.params.map (·.1))
    | none => false
  | none => false

/-- the program checker: every method against its signature, `main` at top level -/
def checkProg (k : Nat) (p : Prog) : Bool :=
  p.defs.all (checkDef p.defs k) && (checkBlock p.defs k ⟨[], [], none, []⟩ p.main).isSome

-- ---------------------------------------------------------------- semantic typing

/-- the environment maps every typed local to a cell of that declared type -/
def EnvOkB (S : List T) (g : TEnvB) (env : Env) : Prop :=
  ∀ x t, lookupT g x = some t → ∃ i, lookup env x = some i ∧ S[i]? = some t

/-- a closure value is well typed at `pts → r` under store typing `S`: its captured environment
agrees with some context in which its body checks -/
def CloOk (defs : List Def) (S : List T) (ps : List String) (body : List Stmt) (cenv : Env)
    (pts : List T) (r : T) : Prop :=
  ps.length = pts.length ∧
  ∃ (g : TEnvB) (k : Nat) (tv : T) (g' : TEnvB), EnvOkB S g cenv ∧
    checkBlock defs k ⟨bindTys ps pts g, [], some r, ps⟩ body = some (tv, g') ∧ fits tv r = true

/-- the value typing judgement `v : τ` under store typing `S` (cell index ↦ declared type) -/
def HasTy (defs : List Def) (S : List T) (v : Val) : T → Prop
  | .int => ∃ n, v = .int n
  | .bool => ∃ b, v = .bool b
  | .str => ∃ s, v = .str s
  | .nil => v = .nil
  | .zde => v = .zde
  | .any => True
  | .never => False
  | .opt t => v = .nil ∨ HasTy defs S v t
  | .fn pts r => ∃ ps body cenv, v = .clo ps body cenv ∧ CloOk defs S ps body cenv pts r

/-- argument values against parameter types, pointwise -/
def ValsOk (defs : List Def) (S : List T) : List Val → List T → Prop
  | [], [] => True
  | v :: vs, t :: ts => HasTy defs S v t ∧ ValsOk defs S vs ts
  | _, _ => False

/-- store typing: every cell has a declared type, fixed at allocation, and holds a value of it -/
def StOk (defs : List Def) (S : List T) (s : St) : Prop :=
  s.store.length = S.length ∧
  ∀ (i : Nat) v t, s.store[i]? = some v → S[i]? = some t → HasTy defs S v t

/-- the store typing only grows -/
def Ext (S S' : List T) : Prop := ∃ d, S' = S ++ d

/-- every method is well typed against its signature (at some checker fuel) -/
def DefsOk (defs : List Def) : Prop := ∀ d ∈ defs, ∃ k, checkDef defs k d = true

/-- what a well-typed piece of code may end in, in loops `L` and with return type `ret`:
a value of its type, a legal break/continue, a return of the right type, a thrown value, or
out of fuel — never `stuck` -/
def OutOk (defs : List Def) (S : List T) (L : List (Option String)) (ret : Option T) (t : T) : Out → Prop
  | .val v => HasTy defs S v t
  | .brk l => lblOk L l = true
  | .cont l => lblOk L l = true
  | .ret v => ∃ r, ret = some r ∧ HasTy defs S v r
  | .thrw _ => True
  | .stuck _ => False
  | .timeout => True

-- ---------------------------------------------------------------- stage A types inside `T`

def BTy.toT : BTy → T | .int => .int | .bool => .bool | .str => .str
def STy.toT : STy → T | .base b => b.toT | .nil => .nil | .opt b => .opt b.toT
def TEnv.toB (g : TEnv) : TEnvB := g.map fun p => (p.1, p.2.toT)

end Elk.Mini
