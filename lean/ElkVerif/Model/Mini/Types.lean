import ElkVerif.Model.Mini.Eval
/-!
# MiniElk — type checker for the expression fragment (stage A of the soundness result)

Types of the fragment: `Int`, `Bool`, `String`, `nil` and nilable versions of the first three.
Expressions: literals, locals, arithmetic / comparison / equality / concatenation, `-`, `!`,
`&&`/`||` on booleans, `??` on a nilable left operand. No calls, closures or assignments here:
those, and all statements, are typed by the extended checker of `TypesB.lean` (stages B–D).
-/
namespace Elk.Mini

inductive BTy where
  | int | bool | str
deriving DecidableEq, Repr

inductive STy where
  | base (b : BTy)
  | nil
  | opt (b : BTy)
deriving DecidableEq, Repr

abbrev TEnv := List (String × STy)

def lookupTy (g : TEnv) (x : String) : Option STy :=
  match g with
  | [] => none
  | (y, t) :: rest => if x == y then some t else lookupTy rest x

def Val.hasBase : Val → BTy → Bool
  | .int _, .int => true
  | .bool _, .bool => true
  | .str _, .str => true
  | _, _ => false

/-- the value typing judgement `v : τ` -/
def Val.hasTy (v : Val) : STy → Bool
  | .base b => v.hasBase b
  | .nil => match v with | .nil => true | _ => false
  | .opt b => (match v with | .nil => true | _ => false) || v.hasBase b

def checkBin (op : BinOp) (a b : STy) : Option STy :=
  match op, a, b with
  | .add, .base .int, .base .int => some (.base .int)
  | .sub, .base .int, .base .int => some (.base .int)
  | .mul, .base .int, .base .int => some (.base .int)
  | .div, .base .int, .base .int => some (.base .int)
  | .mod, .base .int, .base .int => some (.base .int)
  | .lt, .base .int, .base .int => some (.base .bool)
  | .le, .base .int, .base .int => some (.base .bool)
  | .gt, .base .int, .base .int => some (.base .bool)
  | .ge, .base .int, .base .int => some (.base .bool)
  | .eq, _, _ => some (.base .bool)
  | .ne, _, _ => some (.base .bool)
  | .concat, .base .str, .base .str => some (.base .str)
  | _, _, _ => none

/-- algorithmic type checker; structural on a fuel bounding the expression depth
(Expr is a nested inductive, so the recursion is on the fuel) -/
def check (g : TEnv) : Nat → Expr → Option STy
  | 0, _ => none
  | n + 1, e =>
    match e with
    | .int _ => some (.base .int)
    | .bool _ => some (.base .bool)
    | .str _ => some (.base .str)
    | .nil => some .nil
    | .var x => lookupTy g x
    | .bin op a b =>
      match check g n a, check g n b with
      | some ta, some tb => checkBin op ta tb
      | _, _ => none
    | .un .neg a => match check g n a with
      | some (.base .int) => some (.base .int)
      | _ => none
    | .un .not a => match check g n a with
      | some _ => some (.base .bool)
      | none => none
    | .and a b => match check g n a, check g n b with
      | some (.base .bool), some (.base .bool) => some (.base .bool)
      | _, _ => none
    | .or a b => match check g n a, check g n b with
      | some (.base .bool), some (.base .bool) => some (.base .bool)
      | _, _ => none
    | .nilco a b => match check g n a, check g n b with
      | some (.opt t), some (.base t') => if t = t' then some (.base t) else none
      | _, _ => none
    | _ => none

/-- the environment and store agree with the typing context -/
def EnvOk (g : TEnv) (env : Env) (s : St) : Prop :=
  ∀ x t, lookupTy g x = some t → ∃ i v, lookup env x = some i ∧ s.read i = some v ∧ v.hasTy t = true

end Elk.Mini
