/-!
# MiniElk — syntax of the Elk fragment used by the program-level properties
(C01, C02, C10, C12, C13, C14, C15 …). Core Lean only.

Two syntactic layers: single-line *expressions* and *statements* (blocks are `List Stmt`).
The concrete syntax each form is printed as is in `Driver/Dom/Mini.lean` (`pp*`).
-/
namespace Elk.Mini

inductive Ty where
  | int | bool | str | nil
  | opt (t : Ty)                       -- `T?`
  | fn (ps : List Ty) (r : Ty)         -- `|a: P…|: R`
deriving Repr, Inhabited

inductive BinOp where
  | add | sub | mul | div | mod | lt | le | gt | ge | eq | ne | concat
deriving Repr, DecidableEq, Inhabited

inductive UnOp where
  | neg | not
deriving Repr, DecidableEq, Inhabited

/-- catch patterns: `String() as x`, `Int() as x`, `Std::ZeroDivisionError() as x`, a literal
string/int, or catch-all `x` -/
inductive Pat where
  | isStr | isInt | isZde | litStr (s : String) | litInt (n : Int) | any
deriving Repr, DecidableEq, Inhabited

mutual
inductive Expr where
  | int (n : Int) | bool (b : Bool) | nil | str (s : String)
  | var (x : String)
  | bin (op : BinOp) (a b : Expr)
  | un (op : UnOp) (a : Expr)
  | and (a b : Expr) | or (a b : Expr) | nilco (a b : Expr)
  | assign (x : String) (e : Expr)
  | callDef (f : String) (args : List Expr)
  | callClo (f : Expr) (args : List Expr)
  | lam (params : List (String × Ty)) (ret : Ty) (body : List Stmt)
inductive Stmt where
  | decl (x : String) (ty : Option Ty) (e : Expr)
  | expr (e : Expr)
  | print (e : Expr)                                   -- `println((e).inspect)`
  | ite (c : Expr) (t e : List Stmt)
  | while (lbl : Option String) (c : Expr) (body : List Stmt)
  | loop (lbl : Option String) (body : List Stmt)
  | brk (lbl : Option String)
  | cont (lbl : Option String)
  | ret (e : Expr)
  | throw (e : Expr)                                   -- `throw unchecked e`
  | try (body : List Stmt) (catches : List Catch) (fin : Option (List Stmt))
inductive Catch where
  | mk (p : Pat) (x : String) (body : List Stmt)
end

instance : Inhabited Expr := ⟨.nil⟩
instance : Inhabited Stmt := ⟨.expr .nil⟩

structure Def where
  name : String
  params : List (String × Ty)
  ret : Ty
  body : List Stmt

structure Prog where
  modName : String
  defs : List Def
  main : List Stmt

end Elk.Mini
