import ElkVerif.Model.Mini.Syntax
/-!
# MiniElk — reference evaluator

A fuel-indexed definitional interpreter. Variables live in store cells; closures capture
*cells* (the environment maps names to cell indices), so a closure and its defining scope see
each other's updates and captured variables outlive the defining call (C13). Control flow is
an explicit outcome (C14). `timeout` (fuel exhausted) and `stuck` (an operation applied to a
value of the wrong kind — what a Go panic in the VM would be) propagate immediately and skip
`finally` blocks.
-/
namespace Elk.Mini

abbrev Env := List (String × Nat)

inductive Val where
  | int (n : Int) | bool (b : Bool) | nil | str (s : String)
  | zde                                              -- a `Std::ZeroDivisionError` instance
  | clo (params : List String) (body : List Stmt) (env : Env)
deriving Inhabited

inductive Out where
  | val (v : Val)
  | brk (l : Option String)
  | cont (l : Option String)
  | ret (v : Val)
  | thrw (v : Val)
  | stuck (why : String)
  | timeout
deriving Inhabited

structure St where
  store : List Val := []
  trace : List String := []       -- lines printed so far, most recent FIRST (see `St.lines`)
deriving Inhabited

def Val.truthy : Val → Bool
  | .nil => false
  | .bool false => false
  | _ => true

def Val.inspect : Val → String
  | .int n => toString n
  | .bool b => if b then "true" else "false"
  | .nil => "nil"
  | .str s => "\"" ++ s ++ "\""
  | .zde => "<zde>"
  | .clo .. => "<closure>"

def Val.eqv : Val → Val → Bool
  | .int a, .int b => a == b
  | .bool a, .bool b => a == b
  | .nil, .nil => true
  | .str a, .str b => a == b
  | _, _ => false

def lookup (env : Env) (x : String) : Option Nat :=
  match env with
  | [] => none
  | (y, i) :: rest => if x == y then some i else lookup rest x

def St.alloc (s : St) (v : Val) : Nat × St :=
  (s.store.length, { s with store := s.store ++ [v] })

def St.read (s : St) (i : Nat) : Option Val := s.store[i]?

def St.write (s : St) (i : Nat) (v : Val) : St := { s with store := s.store.set i v }

def St.emit (s : St) (line : String) : St := { s with trace := line :: s.trace }

/-- printed lines in program order -/
def St.lines (s : St) : List String := s.trace.reverse

/-- binary operators on values: `inl` = Elk error thrown, `inr none` = stuck -/
def binop (op : BinOp) (a b : Val) : Out :=
  match op, a, b with
  | .add, .int x, .int y => .val (.int (x + y))
  | .sub, .int x, .int y => .val (.int (x - y))
  | .mul, .int x, .int y => .val (.int (x * y))
  | .div, .int x, .int y => if y == 0 then .thrw .zde else .val (.int (Int.tdiv x y))
  | .mod, .int x, .int y => if y == 0 then .thrw .zde else .val (.int (Int.tmod x y))
  | .lt, .int x, .int y => .val (.bool (x < y))
  | .le, .int x, .int y => .val (.bool (x ≤ y))
  | .gt, .int x, .int y => .val (.bool (x > y))
  | .ge, .int x, .int y => .val (.bool (x ≥ y))
  | .eq, x, y => .val (.bool (x.eqv y))
  | .ne, x, y => .val (.bool (!(x.eqv y)))
  | .concat, .str x, .str y => .val (.str (x ++ y))
  | _, _, _ => .stuck "binop: operand kinds"

def unop (op : UnOp) (a : Val) : Out :=
  match op, a with
  | .neg, .int x => .val (.int (-x))
  | .not, v => .val (.bool (!v.truthy))
  | _, _ => .stuck "unop: operand kind"

def Pat.matches : Pat → Val → Bool
  | .isStr, .str _ => true
  | .isInt, .int _ => true
  | .isZde, .zde => true
  | .litStr s, .str t => s == t
  | .litInt n, .int m => n == m
  | .any, _ => true
  | _, _ => false

def findDef (defs : List Def) (f : String) : Option Def :=
  defs.find? (fun d => d.name == f)

/-- bind parameters to fresh cells -/
def bindParams : List String → List Val → Env → St → Option (Env × St)
  | [], [], env, s => some (env, s)
  | p :: ps, v :: vs, env, s =>
    let (i, s') := s.alloc v
    bindParams ps vs ((p, i) :: env) s'
  | _, _, _, _ => none

/-- does a loop with label `mine` consume a `break`/`continue` carrying label `l`? -/
def labelHits (mine l : Option String) : Bool :=
  match l with
  | none => true
  | some x => mine == some x

/-- the outcome of a function/closure body as seen by the caller -/
def callResult : Out → Out
  | .val v => .val v
  | .ret v => .val v
  | .thrw v => .thrw v
  | .brk _ => .stuck "break escaped a function"
  | .cont _ => .stuck "continue escaped a function"
  | .stuck w => .stuck w
  | .timeout => .timeout

/-- outcomes that abort evaluation altogether (no `finally` runs: the VM would be dead / out of fuel) -/
def Out.fatal : Out → Bool
  | .timeout => true
  | .stuck _ => true
  | _ => false

/-- how a `finally` block combines with the pending outcome `r2` of the protected part:
`r3` is the result of running the block in the state `r2` left. A fatal pending outcome skips
it; a normally finishing `finally` keeps the pending outcome; an abrupt one replaces it. -/
def finallyPhase (env : Env) (r2 : Out × St) (r3 : Out × Env × St) : Out × Env × St :=
  if r2.1.fatal then (r2.1, env, r2.2)
  else match r3.1 with
    | .val _ => (r2.1, env, r3.2.2)
    | o3 => (o3, env, r3.2.2)

mutual
def evalExpr (defs : List Def) : Nat → Env → St → Expr → Out × St
  | 0, _, s, _ => (.timeout, s)
  | n + 1, env, s, e =>
    match e with
    | .int k => (.val (.int k), s)
    | .bool b => (.val (.bool b), s)
    | .nil => (.val .nil, s)
    | .str t => (.val (.str t), s)
    | .var x =>
      match lookup env x with
      | some i => match s.read i with
        | some v => (.val v, s)
        | none => (.stuck "dangling cell", s)
      | none => (.stuck ("undefined local " ++ x), s)
    | .bin op a b =>
      match evalExpr defs n env s a with
      | (.val va, s1) =>
        match evalExpr defs n env s1 b with
        | (.val vb, s2) => (binop op va vb, s2)
        | r => r
      | r => r
    | .un op a =>
      match evalExpr defs n env s a with
      | (.val va, s1) => (unop op va, s1)
      | r => r
    | .and a b =>
      match evalExpr defs n env s a with
      | (.val va, s1) => if va.truthy then evalExpr defs n env s1 b else (.val va, s1)
      | r => r
    | .or a b =>
      match evalExpr defs n env s a with
      | (.val va, s1) => if va.truthy then (.val va, s1) else evalExpr defs n env s1 b
      | r => r
    | .nilco a b =>
      match evalExpr defs n env s a with
      | (.val .nil, s1) => evalExpr defs n env s1 b
      | r => r
    | .assign x rhs =>
      match evalExpr defs n env s rhs with
      | (.val v, s1) =>
        match lookup env x with
        | some i => (.val v, s1.write i v)
        | none => (.stuck ("assignment to undefined local " ++ x), s1)
      | r => r
    | .callDef f args =>
      match evalArgs defs n env s args with
      | (.inl vs, s1) =>
        match findDef defs f with
        | some d =>
          match bindParams (d.params.map (·.1)) vs [] s1 with
          | some (env', s2) =>
            let (o, _, s3) := execBlock defs n env' s2 d.body
            (callResult o, s3)
          | none => (.stuck "arity", s1)
        | none => (.stuck ("undefined method " ++ f), s1)
      | (.inr o, s1) => (o, s1)
    | .callClo f args =>
      match evalExpr defs n env s f with
      | (.val (.clo ps body cenv), s1) =>
        match evalArgs defs n env s1 args with
        | (.inl vs, s2) =>
          match bindParams ps vs cenv s2 with
          | some (env', s3) =>
            let (o, _, s4) := execBlock defs n env' s3 body
            (callResult o, s4)
          | none => (.stuck "arity", s2)
        | (.inr o, s2) => (o, s2)
      | (.val _, s1) => (.stuck "call of a non-closure", s1)
      | r => r
    | .lam ps _ body => (.val (.clo (ps.map (·.1)) body env), s)

/-- arguments left to right; `inr o` = an argument did not produce a value -/
def evalArgs (defs : List Def) : Nat → Env → St → List Expr → (List Val ⊕ Out) × St
  | 0, _, s, _ => (.inr .timeout, s)
  | _ + 1, _, s, [] => (.inl [], s)
  | n + 1, env, s, a :: rest =>
    match evalExpr defs n env s a with
    | (.val v, s1) =>
      match evalArgs defs n env s1 rest with
      | (.inl vs, s2) => (.inl (v :: vs), s2)
      | r => r
    | (o, s1) => (.inr o, s1)

/-- a block: statements in order; declarations extend the environment for the rest of the
block only. Result: outcome (value of the last statement), the extended environment, state. -/
def execBlock (defs : List Def) : Nat → Env → St → List Stmt → Out × Env × St
  | 0, env, s, _ => (.timeout, env, s)
  | _ + 1, env, s, [] => (.val .nil, env, s)
  | n + 1, env, s, [st] => execStmt defs n env s st
  | n + 1, env, s, st :: rest =>
    match execStmt defs n env s st with
    | (.val _, env1, s1) => execBlock defs n env1 s1 rest
    | r => r

def execStmt (defs : List Def) : Nat → Env → St → Stmt → Out × Env × St
  | 0, env, s, _ => (.timeout, env, s)
  | n + 1, env, s, st =>
    match st with
    | .decl x _ e =>
      match evalExpr defs n env s e with
      | (.val v, s1) =>
        let (i, s2) := s1.alloc v
        (.val v, (x, i) :: env, s2)
      | (o, s1) => (o, env, s1)
    | .expr e =>
      let (o, s1) := evalExpr defs n env s e
      (o, env, s1)
    | .print e =>
      match evalExpr defs n env s e with
      | (.val v, s1) => (.val .nil, env, s1.emit v.inspect)
      | (o, s1) => (o, env, s1)
    | .ite c t e =>
      match evalExpr defs n env s c with
      | (.val vc, s1) =>
        let (o, _, s2) := execBlock defs n env s1 (if vc.truthy then t else e)
        (o, env, s2)
      | (o, s1) => (o, env, s1)
    | .while lbl c body =>
      match evalExpr defs n env s c with
      | (.val vc, s1) =>
        if vc.truthy then
          match execBlock defs n env s1 body with
          | (.val _, _, s2) => execStmt defs n env s2 (.while lbl c body)
          | (.cont l, _, s2) =>
            if labelHits lbl l then execStmt defs n env s2 (.while lbl c body) else (.cont l, env, s2)
          | (.brk l, _, s2) =>
            if labelHits lbl l then (.val .nil, env, s2) else (.brk l, env, s2)
          | (o, _, s2) => (o, env, s2)
        else (.val .nil, env, s1)
      | (o, s1) => (o, env, s1)
    | .loop lbl body =>
      match execBlock defs n env s body with
      | (.val _, _, s2) => execStmt defs n env s2 (.loop lbl body)
      | (.cont l, _, s2) =>
        if labelHits lbl l then execStmt defs n env s2 (.loop lbl body) else (.cont l, env, s2)
      | (.brk l, _, s2) =>
        if labelHits lbl l then (.val .nil, env, s2) else (.brk l, env, s2)
      | (o, _, s2) => (o, env, s2)
    | .brk l => (.brk l, env, s)
    | .cont l => (.cont l, env, s)
    | .ret e =>
      match evalExpr defs n env s e with
      | (.val v, s1) => (.ret v, env, s1)
      | (o, s1) => (o, env, s1)
    | .throw e =>
      match evalExpr defs n env s e with
      | (.val v, s1) => (.thrw v, env, s1)
      | (o, s1) => (o, env, s1)
    | .try body catches fin =>
      let r1 := execBlock defs n env s body
      let r2 : Out × St :=
        match r1.1 with
        | .thrw v => execCatches defs n env r1.2.2 v catches
        | o => (o, r1.2.2)
      match fin with
      | none => (r2.1, env, r2.2)
      | some f => finallyPhase env r2 (execBlock defs n env r2.2 f)

/-- first catch clause whose pattern matches handles the value; none ⇒ still thrown -/
def execCatches (defs : List Def) : Nat → Env → St → Val → List Catch → Out × St
  | 0, _, s, _, _ => (.timeout, s)
  | _ + 1, _, s, v, [] => (.thrw v, s)
  | n + 1, env, s, v, (.mk p x body) :: rest =>
    if p.matches v then
      let (i, s1) := s.alloc v
      let (o, _, s2) := execBlock defs n ((x, i) :: env) s1 body
      (o, s2)
    else execCatches defs n env s v rest
end

/-- run a whole program: `main` at top level -/
def runProg (fuel : Nat) (p : Prog) : Out × St :=
  let (o, _, s) := execBlock p.defs fuel [] {} p.main
  (o, s)

end Elk.Mini
