import Lean
/-!
`#audit_obligations ns [names…]` — for each name: must exist and be a `theorem`; prints
`AUDIT <prop> <name> axioms=[…]` (from `Lean.collectAxioms`). The Python `check` accepts only
subsets of {propext, Classical.choice, Quot.sound}.
-/
open Lean Elab Command

syntax (name := auditObl) "#audit_obligations " ident " [" ident,* "]" : command

@[command_elab auditObl] def elabAuditObl : CommandElab := fun stx => do
  let prop := stx[1].getId
  let ids := stx[3].getSepArgs
  for id in ids do
    let n := id.getId
    let env ← getEnv
    -- resolve relative to the property namespace too
    let cands := [n, prop ++ n, `Elk ++ prop ++ n, `Elk ++ n]
    match cands.find? (fun c => env.contains c) with
    | none => logInfo m!"AUDIT {prop} {n} MISSING"
    | some c =>
      match env.find? c with
      | some (.thmInfo _) =>
        let axs ← liftCoreM (collectAxioms c)
        logInfo m!"AUDIT {prop} {c} axioms={axs.toList}"
      | some _ => logInfo m!"AUDIT {prop} {c} NOT-A-THEOREM"
      | none => logInfo m!"AUDIT {prop} {n} MISSING"
